#!/venv/bin/python
"""Regenerate /verif/MANIFEST.json from the table below (one entry per property module)."""
import json
import os

VERIF = os.path.dirname(os.path.dirname(os.path.abspath(__file__)))
PY = '/venv/bin/python'

# id -> (category, technique, text, note, design_ref)
CHECKS = {
    'C05': ('exploration',
            'Hypothesis generated geometries vs closed-form axis oracle; enumerated index round trip; orientation-twin metamorphic relation',
            'Generated frame geometries over every construction route and unit spelling are compared with '
            'closed-form axes (64 ulp), every channel index is round-tripped, nearest-channel is checked at '
            'generated offsets incl. out-of-band, and an opposite-orientation twin must have equal axes and '
            'equal injected data. Exploration only: no claim beyond the generated cases.',
            'numpy/astropy arithmetic trusted; df >= 4096 ulp(fch1) (the property\'s realistic-ratio domain); exact half-channel ties excluded and counted',
            'DESIGN.md 3/C05'),
    'C18': ('exploration',
            'model-based stateful testing: generated op-lists applied in lock-step to the cadence and a plain list model, invariant after every op; thorough tier adds coverage-guided fuzzing (atheris/libFuzzer) of the same oracle through a byte decoder',
            'Generated histories of list operations over compatible, incompatible and non-frame objects are run '
            'against Cadence/OrderedCadence and a Python-list reference model; identity, order, rejection without '
            'side effect, order labels, by_label and aggregate properties are compared after every operation.',
            'Python list semantics are the model; tuples/empty index lists/slice assignment not generated; set_order only with long-enough orders',
            'DESIGN.md 3/C18'),
    'C09': ('exploration',
            'model-based stateful testing of quantiser call histories against a reference model (refresh counter + cached statistics), exact per-sample prediction; thorough tier adds coverage-guided fuzzing (atheris/libFuzzer) of the same oracle through a byte decoder',
            'Generated quantiser configurations and call histories (inputs from eight distributions incl. constant/huge/tiny, '
            'custom deviations, cache resets, all refresh periods) are predicted sample-for-sample by a reference model; '
            'range, integrality, monotonicity, absence of NaN/RuntimeWarning and independence of re/im are checked on every call.',
            'numpy mean/std are the estimator; pre-round values within 1e-9 of a tie are excluded and counted; squares must not overflow',
            'DESIGN.md 3/C09'),
    'C08': ('exploration',
            'model-based stateful testing of chunked channelisation against a from-first-principles FIR+DFT reference; enumerated compositions; linearity / Re-Im metamorphic relations',
            'Generated feed histories over 1-3 filterbank objects (cached and un-cached calls, resets, real/int/complex input, '
            'even and odd branch counts, four windows) are compared with an explicit windowed-sum + DFT-matrix reference of the '
            'whole stream; all 2^(W-1) chunk compositions for W<=5 (quick) / 6 (thorough) windows are enumerated for six configurations.',
            'chunks are whole multiples of num_taps*num_branches; windows of fewer than 4 coefficients (NaN from scipy for hann/blackman) excluded; 1e-10 relative tolerance',
            'DESIGN.md 3/C08'),
    'C17': ('exploration',
            'Hypothesis generated frames and derived operations vs pixel-by-pixel re-derivation from the parent; metamorphic tone-straightening relation',
            'Slices (all bounds), de-drifts (either sign, below/near/beyond the limit, rate by argument or metadata) and '
            'integrations (axis x mode x normalise x output form) of generated frames with identifiable content are recomputed '
            'from the parent pixel by pixel; axes, orientation, resolutions, start time, source name and copy-not-view are compared; '
            'an injected constant-drift tone must de-drift onto one column labelled with its start frequency.',
            'between shift(tchans-1)>=fchans and the implemented limit either outcome is accepted; rounding ties excluded and counted',
            'DESIGN.md 3/C17'),
    'C01': ('exploration',
            'Hypothesis generated signal descriptions vs an independent per-pixel reference evaluator (own closed forms, sub-sample means, smearing); negative facets for malformed inputs',
            'Every combination of input form (callable/array/list/scalar) for path, time profile, frequency profile and bandpass, all shipped '
            'families with generated parameters, every integrate_* flag, sub-sample counts, smearing and seven bounding-range kinds is '
            'injected into generated frames of both orientations and compared pixel by pixel with a reference evaluation.',
            'tolerance derived from the profile Lipschitz bound times 64 ulp(fmax); box-edge pixels excluded and counted; randomised families via same-seed twin; array bandpass only in its unambiguous full-band form',
            'DESIGN.md 3/C01'),
    'C16': ('fault_enumeration',
            'Hypothesis generated cadences and signals vs per-frame reference at shifted times; enumerated fault injection (callback raising on its k-th call for every k); invariant: time axes bit-identical',
            'Generated cadences (frame counts, tchans, gaps, unix-scale start times, slices and label subsets, slew overwrite) receive 1-3 '
            'injections with all C01 options; each member\'s added data is compared with the reference at frame.ts + (t_start_k - t_start_0); '
            'for the drawn callable component a raising wrapper is installed for every call index k and the time axes must be bit-identical afterwards; '
            'slew overwrite and consolidate() are compared with closed forms.',
            'fault points enumerated per generated case (every frame index), not over all cases; tolerance as C01; arrays only with equal tchans',
            'DESIGN.md 3/C16'),
    'C06': ('exploration',
            'model-based injection histories: exact additivity / untouched-pixel / state-snapshot invariants after every injection; bounded-vs-unbounded differential on a twin frame; permutation metamorphic relation',
            'Sequences of 1-4 generated injections (all C01 signal forms and options, seven bounding-range kinds) into frames with zero, '
            'noisy or float32 file-loaded content: after each step data == before + returned exactly in the frame dtype, pixels outside the '
            'range are bit-identical, the bounded result equals the unbounded one on the inside columns, and axes, noise estimates, metadata '
            'and random state are unchanged; a permuted order must give the same final data.',
            'columns within half a channel of a range end may be included or not; derived tolerance throughout the bounded-vs-unbounded comparison (numpy transcendental kernels are not bit-reproducible across array lengths)',
            'DESIGN.md 3/C06'),
    'C13': ('exploration',
            'differential testing: add_constant_signal vs add_signal on a twin frame over generated start/drift/width/profile/smearing; mirror metamorphic relation',
            'Generated start frequencies (inside, at the edge of and outside the band, on centres and half-way points), drifts of either sign and zero, '
            'widths 0.05-10 channels, five profile types, smearing on/off, plain and Quantity arguments: the helper must equal general injection '
            'wherever the general signal is non-zero (compact profiles) / within FWHM/2 of the smeared centre (tailed), equal-or-zero elsewhere; '
            'mirror image for -d; zero-drift smeared == unsmeared.',
            'general injection (checked by C01) is the reference; sub-step count taken from the property formula on the doubles passed; box-edge pixels excluded',
            'DESIGN.md 3/C13'),
    'C10': ('exploration',
            'model-based stateful testing of stream/antenna request histories against a rational-time clock model, closed-form content and a same-seed single-request twin (chunking metamorphic relation)',
            'Generated histories of get/set_time/add_time/reset_start/update_noise on data streams and 1-2 polarisation antennas with 0-2 noise, '
            'chirp and custom (real/complex) sources: every delivered time axis is compared with an exact rational clock, deterministic content '
            'with its closed form on that axis, and the noise of all requests bit for bit with a twin\'s single request of the total length; '
            'antenna clock == stream clocks, x/y stacking, complex promotion.',
            'clock tolerance (ops+4) ulp; chirp tolerance 32 ulp of the largest phase; noise identity is relative to the same code under another chunking',
            'DESIGN.md 3/C10'),
    'C15': ('exploration',
            'model-based stateful testing of array request histories: closed-form alignment oracle with exact rational clock, and chunked-vs-one-shot twin (metamorphic) with seeded noise',
            'Generated arrays (1-4 antennas, delay vectors omitted/zero/unsorted/repeated up to 40 in four container forms, 1-2 pols) and '
            'histories of get/set_time/add_time/reset_start: with time-indexed sinusoids every output sample must equal own(t0+k/sr) + '
            'bg(t0+(k+D-d_i)/sr); with seeded noise each observation segment must equal a same-seed twin read in one request.',
            'request sizes exceed the largest delay; sinusoid tolerance 64 ulp of the phase; twin relation is against the same code',
            'DESIGN.md 3/C15'),
    'C02': ('exploration',
            'differential testing of recorded bytes against an independent from-first-principles pipeline fed by a same-seed one-request twin; partition metamorphic relation (byte identity over num_subblocks x blocks_per_file)',
            'Generated backend configurations are recorded under up to 8 computation/file partitions (incl. non-dividing and over-large '
            'num_subblocks); concatenated payloads, parsed by an independent GUPPI reader, must be byte-identical across partitions and equal, '
            'sample for sample, to an independent digitiser -> FIR+DFT -> channel selection -> requantiser -> packing reference.',
            'quantiser statistics from a common prefix (stats_calc_period=-1); source chunk-invariance is C10/C15; rounding-tie window 1e-6 (+-1 allowed, counted)',
            'DESIGN.md 3/C02'),
    'C04': ('exploration',
            'Hypothesis generated header dictionaries and recordings vs an independent strict GUPPI parser; rational recomputation of configuration-owned cards; reader differential under injected directory-listing permutations',
            'Generated recordings (1-45 blocks over 1-45 files, template on/off, DIRECTIO absent/0/1/\"1\", 0-70 user cards steered to every '
            'header length mod 32, bogus values for owned keys, user PKTIDX) are parsed strictly by an independent reader; owned cards are recomputed '
            'exactly, user cards must survive, and read_header/get_blocks_in_file/get_blocks_per_file/get_total_blocks/get_raw_params must agree with '
            'the parser under every (<=4 files) or 6 sampled listing orders.',
            'header-relative padding; valid cards only (no quotes/empty strings/long keys); listing order injected by replacing raw_utils.glob in-process; blimpy GuppiRaw not used as second reader',
            'DESIGN.md 3/C04'),
    'C20': ('exploration',
            'exact rational recomputation of all size/length bookkeeping over generated (quick) and fully enumerated (thorough) configuration tuples; instrumented recordings counting samples drawn',
            'Configuration tuples (5 rates x 4 branch counts x taps x channels x antennas x pols x bits x windows x blocks; product enumerated '
            'completely in the thorough tier) with generated durations (generic, exact block multiples, +-ulps): samples/time per block, '
            'get_num_blocks under the 1e-9 boundary rule, observation length, total samples and the stand-alone helpers are compared with exact '
            'rationals; tiny configurations are recorded with a counting wrapper on the antenna (samples drawn, clock advance, SCANLEN, PKTIDX/PKTSTOP).',
            'finite value lists for rate/size parameters (the thorough tier is exhaustive over that product only); durations sampled',
            'DESIGN.md 3/C20'),
    'C07': ('exploration',
            'Hypothesis generated tones/chirps located in the recorded data by an independent parser + own fine channelisation, frequencies converted with the file\'s own header; reader/reducer differential vs own reduction',
            'Generated recordings (rates, 8-64 branches, any start_chan/num_chans, 1-2 pols, 8/4 bit, both orientations, digitiser on/off) with one '
            'tone or chirp in any recorded coarse channel but the DC one: the arg-max coarse/fine bin converted with OBSFREQ/OBSNCHAN/CHAN_BW of the file '
            'must be within one fine bin of the tone, chirps must track f_start + drift*t; get_raw_params must return the antenna\'s fch1/chan_bw/orientation; '
            'get_pfb_waterfall / get_waterfall_from_raw must equal an own reduction for padded, unpadded and aligned headers.',
            'statistics estimated once from the first block (no per-sub-block mean removal); DC bin ignored for chirps; saturating 4-bit FWHM not generated',
            'DESIGN.md 3/C07'),
    'C14': ('exploration',
            'generated input recordings written by an independent GUPPI writer; decode differential, framing invariants, tone demodulation invariant over sub-blocks/blocks, exact two-stage requantisation model (differential) for one sub-block per block',
            'Inputs (8/4 bit, 1-2 pols, 1-3 antennas, DIRECTIO absent/0/1, aligned headers, several files with a partial last one, distinct statistics '
            'per antenna/pol) are produced by the independent writer; every block from _read_next_block must equal the independent decode; the output must '
            'keep the input framing and min(requested, input) blocks; the demodulated tone amplitude must be stationary over sub-blocks and blocks; with '
            'num_subblocks=1 the output must equal an exact model sample for sample; channelized_stds must be unchanged by a recording.',
            'gain band [0.4,2.5] x median on segments >= 32 spectra (inherent +-25% scatter from per-sub-block statistics); exact model only for num_subblocks=1',
            'DESIGN.md 3/C14'),
    'C19': ('exploration',
            'generated filterbank files (independent writer, channel-coded content) and arrays vs closed-form tiling model; count formula, per-piece data/frequency comparison, partition check',
            'Generated (nchans, fchans, shift, tchans) incl. exact multiples, remainders and single pieces, header frequencies/resolutions of either sign: '
            'the generator must yield floor((nchans-fchans)/shift)+1 pieces with exactly the expected channels, integrations and frequencies; split_fil must '
            'write as many loadable files; distribution helpers must return that many values. Generated arrays/tiles/shifts/trim flags are compared with a '
            'tile model; shift == size must partition the array.',
            'blimpy reads the pieces (library\'s own reader); content and headers of written pieces are checked with the independent reader',
            'DESIGN.md 3/C19'),
    'C03': ('exploration',
            'model-based histories over a frame pool (new/get_waterfall/copy/slice/dedrift/pickle/save_load) with round-trip oracle: independent SIGPROC/HDF5 reader, library reload, blimpy reader and stand-alone helpers all compared with the in-memory frame',
            'Generated op histories create load->derive->save chains; at every save the file is read by an independent reader (shape, pixel-at-frequency, '
            'resolution, start, name), reloaded through the library and compared with the saved frame, read by blimpy, and the helper axes must have '
            'exactly nchans/nints entries; the in-session Waterfall must carry the same header/data.',
            'whole-frame saves/loads only; HDF5 only for >= 3 rows and channels (blimpy reader limitation); 64 ulp frequency and 5 us start-time tolerances',
            'DESIGN.md 3/C03'),
    'C11': ('exploration',
            'Hypothesis generated noise histories with exact bookkeeping oracles (returned == added, table membership/common index, first-noise statistics, SNR inverse) and statistical oracles at analytically derived 6.5-sigma bands on 32768-sample draws',
            'Generated frames with df*dt around every integer 1..10 and histories of add_noise / add_noise_from_obs (own and shipped tables, share_index on/off) / zero_data: '
            'returned array == what was added, floors respected and attained, first noise sets the estimates, table draws are members with a common index when shared, '
            'intensity/snr inverse; chi-squared mean/variance/k-hat, Gaussian mean/std and the sigma-clipped re-estimate are tested statistically; stream and array '
            'background deviations add in quadrature (exact bookkeeping + sampled).',
            'distributional clauses are decided statistically (false-alarm < 1e-6 per run); own tables keep means above deviations',
            'DESIGN.md 3/C11'),
    'C12': ('exploration',
            'generated seeded API programs executed in pristine forked children, after unrelated prefixes, in a long-lived process and in a fresh interpreter with another hash seed; digest comparison (metamorphic); copy/pickle isolation invariants',
            'Scenario programs from a grammar (frame noise, RFI path, pulse profile, stream/array requests, channelised-noise estimate, 1-3 recordings with '
            'default / fresh / reused header dictionaries, arrays and single antennas, re-injection via from_data) must produce identical SHA-256 digests '
            'in every execution context, a second recording with the same backend must equal a fresh backend at the same antenna state, and copies / '
            'pickles of frames from every route must be equal to and independent of the original; different seeds must give different noise.',
            'pristine process = fork of a zygote that only imported the library (a real interpreter start with PYTHONHASHSEED=1 is sampled once per shard / more in thorough); finite scenario grammar',
            'DESIGN.md 3/C12'),
}

EXTRA = {'C01': ' Also: > 2**16 channels, float32 frame data, 100-400 sub-samples, and a second injection after the user moved frame.ts. Options reach add_signal spelled out, with documented defaults omitted, or positionally; numpy.float64 scalars and integer bandpass levels. One-sided and very distant bounding ranges; numpy scalars of any width as scalar components.', 'C02': ' Also: blocks beyond 4096 spectra, and a backend re-used after a successful or an aborted recording must write what a fresh backend writes from the same antenna state.', 'C03': ' Also: frames built from in-session Waterfall objects, a second frame in the session, loads of blimpy time selections.', 'C04': ' Also: keys beginning with END, user PKTSTART, a second recording with the same backend, blimpy GuppiRaw block counts where its conventions coincide. Lower-case keys and keys differing only in case; the same path held another recording earlier in the process. Empty string cards; stems with glob metacharacters.', 'C05': ' Also: 2**16..2**20 channels and orientation flags given as numpy.bool_ / int. Result shapes of array-valued conversions are compared before values. A sibling frame with the same fch1/df but other orientation or size is constructed first.', 'C06': ' Also: > 2**16 channels, frames with an earlier cadence injection, state compared again after SNR queries, returned arrays must stay intact. In a quarter of the cases the noise estimates are first read after the injections and compared with an identically built twin; three call styles. One-sided bounding ranges; a constant-signal helper injection under the same oracle.', 'C07': ' Also: antenna arrays, Quantity arguments, and a recording made after an aborted recording. The same path held another recording earlier; quick-look reducers called by keyword and in positional order. OBSBW must equal CHAN_BW times the channels per antenna.', 'C08': ' Also: copied filterbank objects continuing independently, and one call beyond 2**22 output samples. Chunks as strided / part-of-complex / negative-stride / read-only arrays; the cache keyword omitted. The caller overwrites its chunk buffer after every call.', 'C09': ' Also: integer-typed inputs, refresh periods above 256 and numpy-typed periods. Varying inputs of constant magnitude. Constants up to 1e307, custom deviations down to 1e-18.', 'C10': ' Also: equal-sized consecutive requests, update_noise(k) followed by get(k), single-precision custom sources.', 'C11': ' Also: exact half-integer df*dt, rejected calls, zero-width noise, preloaded frames, parameters below 1e-8. Returned arrays are re-checked after every later operation; shared rows with deviation above the mean; several samples at the minimum must sit on a table floor.', 'C12': " Also: Waterfall headers of original and copy, copies of frames with user-set / consolidated time axes, quantisers with statistics taken once. Second noise sources per stream; header/container/data of a copied Waterfall must be the copy's own. The two background polarisations must draw different noise.", 'C13': ' Also: Quantity arguments in kHz/MHz/GHz, numpy-scalar levels, a second call on the same frame, an earlier call on a much coarser frame, > 2**16 channels. Whole multiples of the unit drift rate as a weighted class; three call styles of the helper.', 'C14': ' Also: per-antenna/polarisation digitiser lists, lazily estimated channelised deviations, a recording after an aborted one, accounting after the clamp to the input length. The input path held another recording earlier in the process. Inputs without descriptive cards; output headers with template or user cards.', 'C15': ' Also: streams without sources, refused too-short requests, unsigned delay arrays. Complex custom sources on the background or the antennas.', 'C16': " Also: callbacks raising BaseException/KeyboardInterrupt, reversed and index-list selections, consolidated members, direct / sub-cadence / whole-cadence injections mixed on the same frames. Selecting a sub-cadence must leave every frame's start time as constructed; three call styles. Index selections as list, tuple or array.", 'C17': ' Also: operations applied to derived, float32, waterfall-carrying, moved-axis and consolidated parents; exact half-channel shifts. numpy-integer slice bounds; integrate() with documented defaults omitted.', 'C18': ' Also: value-equal twin frames, single-ulp incompatibilities, a cadence constructed from a cadence. Tuple selectors, frame-like non-frames, t_overwrite construction, mixed-case order strings.', 'C19': ' Also: the same file path or output directory used earlier in the session for another observation.', 'C20': ' Also: durations 3e-9..1e-5 blocks from a boundary; stream preview, earlier or aborted recording before the counted one; multi-file recordings. Array sources with delays 0..6; a backend built on the recording just made (equal / longer / shorter request, either length mode) must account for the blocks it writes. Durations that are exact multiples of the integration step.'}

ALL = [f'C{i:02d}' for i in range(1, 21)]


def main():
    checks = []
    for pid in ALL:
        if pid not in CHECKS:
            continue
        if not os.path.exists(os.path.join(VERIF, 'vp', 'props', pid.lower() + '.py')):
            continue
        cat, tech, text, note, ref = CHECKS[pid]
        text = text + EXTRA.get(pid, '')
        checks.append(dict(
            property_id=pid,
            quick_cmd=f'{PY} -m vp.runner {pid} --tier quick',
            thorough_cmd=f'{PY} -m vp.runner {pid} --tier thorough',
            evidence_file=f'/verif/evidence/{pid}.json',
            replay_cmd_template=f'{PY} -m vp.runner {pid} --replay {{path}}',
            engine='vp',
            level_claimed=dict(category=cat, text=text, design_ref=ref),
            level_note=note,
            technique=tech,
        ))
    claimed = {c['property_id'] for c in checks}
    na = [dict(property_id=p, reason='check not built yet in this session (planned, see DESIGN.md section 3); '
                                      'property-based testing applies')
          for p in ALL if p not in claimed]
    m = dict(
        version=1,
        setup_cmd=('/venv/bin/python -c "import hypothesis" 2>/dev/null || '
                   '/venv/bin/pip install --no-index --find-links /opt/veriftools/wheels hypothesis'),
        hooks=dict(guard='SETIGEN_VERIF',
                   enable='no instrumentation hooks exist; checks import setigen from /repo working tree (VERIF_REPO overrides)',
                   baseline_off_cmd='cd /repo && /venv/bin/python -m pytest -ra -q -p no:cacheprovider --timeout=900 --continue-on-collection-errors',
                   source_commits=[], add_only=True),
        engines=[dict(name='vp', path='/verif/vp', serves_properties=sorted(claimed),
                      kind_free_text='Hypothesis-driven sharded generated-input search with explicit oracles, '
                                     'bucketed violations, shrinking to JSON replay files, known-finding handling')],
        checks=checks,
        notes='All checks: exit 0 held, exit 1 + VIOLATION line, exit 2 harness error. VERIF_SEED / VERIF_TIER honoured. '
              'Known findings: /verif/known_findings.json. Regression cases: /verif/regress/<ID>/.',
        not_applicable=na,
    )
    with open(os.path.join(VERIF, 'MANIFEST.json'), 'w') as f:
        json.dump(m, f, indent=1)
        f.write('\n')
    print('claimed', sorted(claimed), 'not_applicable', len(na))


if __name__ == '__main__':
    main()
