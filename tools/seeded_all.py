#!/venv/bin/python
"""Run every stored seeded change against the check(s) that are recorded as catching it (or its own property's check)
and report which are detected now. Usage: tools/seeded_all.py [-j 4] [--seed 1] [--match r3]"""
import argparse, json, os, subprocess, sys
from concurrent.futures import ThreadPoolExecutor
ap = argparse.ArgumentParser(); ap.add_argument('-j', type=int, default=4); ap.add_argument('--seed', default='1'); ap.add_argument('--match', default='')
a = ap.parse_args()
V = os.path.dirname(os.path.dirname(os.path.abspath(__file__)))
ids = sorted(d for d in os.listdir(os.path.join(V, 'seeded')) if os.path.isfile(os.path.join(V, 'seeded', d, 'meta.json')) and a.match in d)
def run(sid):
    m = json.load(open(os.path.join(V, 'seeded', sid, 'meta.json')))
    props = sorted({k.split(':')[0] for k, v in m.get('checks', {}).items() if v.get('detected')}) or [m['breaks_property']]
    r = subprocess.run([os.path.join(V, 'tools', 'seeded.py'), 'run', sid, '--props', ','.join(props), '--seed', a.seed],
                       capture_output=True, text=True, cwd=V)
    heads = [l for l in r.stdout.splitlines() if ' vs ' in l]
    return sid, heads
with ThreadPoolExecutor(a.j) as ex:
    missed = 0
    for sid, heads in ex.map(run, ids):
        ok = any('DETECTED' in h for h in heads)
        missed += (not ok)
        print(('ok   ' if ok else 'MISS ') + ' | '.join(h.split('[')[0].strip() + (' DET' if 'DETECTED' in h else ' miss') for h in heads), flush=True)
print('not detected:', missed, 'of', len(ids))
