#!/venv/bin/python
"""Run every registered check (quick or thorough) at the given seeds; print one line per run. Evidence is restored afterwards
unless --keep. Usage: tools/runall.py [--tier quick] [--seeds 1,2,3] [--props C01,C02] [--keep]"""
import argparse, json, os, subprocess, sys, time
ap = argparse.ArgumentParser()
ap.add_argument('--tier', default='quick'); ap.add_argument('--seeds', default='1'); ap.add_argument('--props', default='')
ap.add_argument('--keep', action='store_true')
a = ap.parse_args()
m = json.load(open(os.path.join(os.path.dirname(os.path.dirname(os.path.abspath(__file__))), 'MANIFEST.json')))
props = [c['property_id'] for c in m['checks']]
if a.props:
    props = [p for p in props if p in a.props.split(',')]
bad = 0
for seed in a.seeds.split(','):
    for p in props:
        t = time.time()
        r = subprocess.run(['/venv/bin/python', '-m', 'vp.runner', p, '--tier', a.tier], cwd=os.path.dirname(os.path.dirname(os.path.abspath(__file__))),
                           env=dict(os.environ, VERIF_SEED=seed), capture_output=True, text=True)
        last = (r.stdout.strip().splitlines() or ['?'])[-1]
        flag = '' if r.returncode == 0 else '   <<<<<<<< rc=%d' % r.returncode
        print(f'seed {seed} {last}{flag}', flush=True)
        if r.returncode != 0:
            bad += 1
            print('\n'.join(l[:300] for l in r.stdout.splitlines() if l.startswith(('violation', 'HARNESS', 'KNOWN')))[:3000])
if not a.keep:
    subprocess.run(['git', '-C', '/verif', 'checkout', '--', 'evidence'])
print('runs with non-zero exit:', bad)
