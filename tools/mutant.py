#!/venv/bin/python
"""
Sensitivity helper (DESIGN 1.8): copy /repo to a scratch dir under /tmp, apply one textual
mutation (or a patch file), run a check against it with VERIF_REPO, print its tail, delete.

  tools/mutant.py C05 setigen/frame.py 'np.round((' 'np.floor((' [--tier quick] [--budget N]
  tools/mutant.py C05 --patch /verif/seeded/x/patch.diff
"""
import argparse
import os
import shutil
import subprocess
import sys
import tempfile

ap = argparse.ArgumentParser()
ap.add_argument('prop')
ap.add_argument('file', nargs='?')
ap.add_argument('old', nargs='?')
ap.add_argument('new', nargs='?')
ap.add_argument('--patch')
ap.add_argument('--tier', default='quick')
ap.add_argument('--budget')
ap.add_argument('--seed', default='1')
ap.add_argument('--count', type=int, default=1, help='replace only the first N occurrences')
a = ap.parse_args()

d = tempfile.mkdtemp(prefix='vp-mut-')
try:
    subprocess.check_call(['rsync', '-a', '--exclude', '.git', '--exclude', 'jupyter-notebooks',
                           '--exclude', 'docs', '/repo/', d + '/'])
    if a.patch:
        subprocess.check_call(['patch', '-p1', '-s', '-d', d, '-i', a.patch])
    else:
        p = os.path.join(d, a.file)
        s = open(p).read()
        if a.old not in s:
            print('MUTANT: pattern not found')
            sys.exit(3)
        open(p, 'w').write(s.replace(a.old, a.new, a.count))
    env = dict(os.environ, VERIF_REPO=d, VERIF_SEED=a.seed, VERIF_SHRINK_S='5')
    cmd = ['/venv/bin/python', '-m', 'vp.runner', a.prop, '--tier', a.tier]
    if a.budget:
        cmd += ['--budget', a.budget]
    r = subprocess.run(cmd, cwd='/verif', env=env, capture_output=True, text=True)
    lines = (r.stdout + r.stderr).strip().splitlines()
    print('\n'.join(l[:400] for l in lines[-8:]))
    print('MUTANT rc =', r.returncode, '(1 = detected)')
finally:
    shutil.rmtree(d, ignore_errors=True)
    shutil.rmtree('/verif/replays', ignore_errors=True)
