#!/bin/bash
# soak of the checks touched by the last false-alarm corrections (kept for the record; see DESIGN 7.5)
cd "$(dirname "$0")/.."
/venv/bin/python tools/runall.py --props C01,C06,C13,C16 --seeds 131,132,133,134,135,136,137,138,139,140,141,142,143,144,145,146 --keep
/venv/bin/python tools/runall.py --tier thorough --props C01,C16 --seeds 6 --keep
