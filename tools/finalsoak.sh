#!/bin/bash
# soak of the checks touched by the last false-alarm corrections (kept for the record; see DESIGN 7.5)
cd "$(dirname "$0")/.."
/venv/bin/python tools/runall.py --props C01,C06,C07,C09,C13,C16 --seeds 101,102,103,104,105,106,107,108,109,110,111,112,113,114,115,116,117,118,119,120 --keep
/venv/bin/python tools/runall.py --tier thorough --props C01,C07,C09,C16 --seeds 4,5 --keep
