#!/bin/bash
# confirm and evaluate one round of sub-agent changes: tools/round.sh r6  (outdirs /tmp/wt/out/Cxx<round>)
R=$1
cd "$(dirname "$0")/.."
ls -d /tmp/wt/out/C??$R | xargs -P 10 -I{} sh -c 'tools/seeded.py confirm {} > {}/confirm.log 2>&1'
cat /tmp/wt/out/C??$R/confirm.log | grep -E "REJECT|kept as"
tools/seeded_all.py -j 12 --match=-${R}m
