#!/venv/bin/python
"""Rewrite the seeded-change table in DESIGN.md (between the SEEDED-TABLE markers) from /verif/seeded/*/meta.json."""
import glob, json, os, re
V = os.path.dirname(os.path.dirname(os.path.abspath(__file__)))
NOTES = json.load(open(os.path.join(V, 'seeded', 'first_missed.json')))
rows = ['| id | kind | change | caught by | notes |', '|---|---|---|---|---|']
n = det = 0
for d in sorted(glob.glob(os.path.join(V, 'seeded', '*', 'meta.json'))):
    m = json.load(open(d)); sid = os.path.basename(os.path.dirname(d))
    checks = m.get('checks', {})
    by = sorted({k.split(':')[0] for k, v in checks.items() if v.get('detected')})
    n += 1; det += bool(by)
    note = NOTES.get(sid, '')
    rows.append(f"| {sid} | {m.get('kind', 'simple')} | {m['summary'][:170].replace('|', '/')} | {', '.join(by) or '**none**'} | {note} |")
p = os.path.join(V, 'DESIGN.md')
s = open(p).read()
a, b = '<!-- SEEDED-TABLE-BEGIN -->', '<!-- SEEDED-TABLE-END -->'
new = a + f'\n\n{det} of {n} stored changes are detected by at least one quick-tier check.\n\n' + '\n'.join(rows) + '\n\n' + b
if a in s:
    s = s[:s.index(a)] + new + s[s.index(b) + len(b):]
else:
    raise SystemExit('markers missing')
open(p, 'w').write(s)
print(det, 'of', n)
