#!/venv/bin/python
"""
Confirm and evaluate seeded changes written by sub-agents.

  tools/seeded.py confirm /tmp/wt/out/C18 [--skip-tests]   # confirm each mK, store under /verif/seeded/
  tools/seeded.py run C18-m1 [--tier quick] [--props C18,C16]  # run check(s) against a stored change

confirm: in a scratch copy of /repo (under /tmp, removed afterwards): patch applies, test suite
passes with it, demo fails with it and passes without; then copies patch.diff, demo.py, meta.json
to /verif/seeded/<ID>-mK/ and records what was run.
run: scratch copy + patch, runs the property's quick check with VERIF_REPO pointing at the copy,
records detected / missed in meta.json.
"""
import argparse
import json
import os
import shutil
import subprocess
import sys
import tempfile

VERIF = '/verif'
PY = '/venv/bin/python'


def scratch(patch=None):
    d = tempfile.mkdtemp(prefix='vp-seed-')
    subprocess.check_call(['rsync', '-a', '--exclude', '.git', '--exclude', 'jupyter-notebooks',
                           '--exclude', 'docs', '/repo/', d + '/'])
    if patch:
        r = subprocess.run(['patch', '-p1', '-s', '-d', d, '-i', patch], capture_output=True, text=True)
        if r.returncode != 0:
            shutil.rmtree(d, ignore_errors=True)
            raise RuntimeError('patch does not apply: ' + r.stdout + r.stderr)
    return d


def run_demo(tree, demo):
    r = subprocess.run([PY, demo], cwd=tree, capture_output=True, text=True, timeout=900,
                       env=dict(os.environ, TQDM_DISABLE='1', PYTHONPATH=tree))
    return r.returncode, (r.stdout + r.stderr)[-600:]


def confirm(outdir, skip_tests):
    for name in sorted(os.listdir(outdir)):
        src = os.path.join(outdir, name)
        patch = os.path.join(src, 'patch.diff')
        demo = os.path.join(src, 'demo.py')
        if not (os.path.isfile(patch) and os.path.isfile(demo)):
            continue
        meta = json.load(open(os.path.join(src, 'meta.json')))
        pid = meta.get('property') or os.path.basename(outdir.rstrip('/'))
        rnd = os.path.basename(outdir.rstrip('/'))[len(pid):]         # e.g. 'r2' for a second round
        sid = f'{pid}-{rnd}{name}'
        print(f'== {sid}: {meta.get("summary")}')
        clean = scratch()
        try:
            rc0, out0 = run_demo(clean, demo)
        finally:
            shutil.rmtree(clean, ignore_errors=True)
        try:
            mut = scratch(patch)
        except RuntimeError as e:
            print('   REJECT:', e)
            continue
        try:
            rc1, out1 = run_demo(mut, demo)
            tests = 'skipped'
            if not skip_tests:
                r = subprocess.run([PY, '-m', 'pytest', '-q', '-p', 'no:cacheprovider', '--timeout=900',
                                    '-x', 'tests'], cwd=mut, capture_output=True, text=True)
                tests = (r.stdout.strip().splitlines() or ['?'])[-1]
                if r.returncode != 0:
                    print('   REJECT: test suite fails with the patch:', tests)
                    continue
        finally:
            shutil.rmtree(mut, ignore_errors=True)
        print(f'   demo unpatched rc={rc0}, patched rc={rc1}; tests: {tests}')
        if rc0 != 0 or rc1 == 0:
            print('   REJECT: demo does not discriminate', out0[-200:], out1[-200:])
            continue
        dst = os.path.join(VERIF, 'seeded', sid)
        os.makedirs(dst, exist_ok=True)
        shutil.copy(patch, dst)
        shutil.copy(demo, dst)
        meta['breaks_property'] = pid
        meta['confirmed'] = dict(
            repo_head=subprocess.check_output(['git', '-C', '/repo', 'rev-parse', '--short', 'HEAD'], text=True).strip(),
            demo_unpatched_rc=rc0, demo_patched_rc=rc1, demo_patched_tail=out1[-300:], test_suite_with_patch=tests,
            how='scratch copy of /repo (rsync) under /tmp, patch -p1, /venv/bin/python demo.py with cwd=tree; '
                'pytest -q -x tests in the patched copy; copy removed afterwards')
        json.dump(meta, open(os.path.join(dst, 'meta.json'), 'w'), indent=1)
        print('   kept as', dst)


def run(sid, tier, props, seed):
    dst = os.path.join(VERIF, 'seeded', sid)
    meta = json.load(open(os.path.join(dst, 'meta.json')))
    props = props or [meta['breaks_property']]
    mut = scratch(os.path.join(dst, 'patch.diff'))
    try:
        for pid in props:
            env = dict(os.environ, VERIF_REPO=mut, VERIF_SEED=str(seed), VERIF_SHRINK_S='5')
            r = subprocess.run([PY, '-m', 'vp.runner', pid, '--tier', tier], cwd=VERIF, env=env,
                               capture_output=True, text=True)
            lines = (r.stdout + r.stderr).strip().splitlines()
            facets = [l for l in lines if l.startswith('violation facet=')]
            print(f'{sid} vs {pid} [{tier}, seed {seed}]: rc={r.returncode}', '(DETECTED)' if r.returncode == 1 else
                  '(missed)' if r.returncode == 0 else '(HARNESS ERROR)')
            for l in facets[:4]:
                print('    ', l[:220])
            if r.returncode == 2:
                print('\n'.join(lines[-15:]))
            meta.setdefault('checks', {})[f'{pid}:{tier}'] = dict(
                rc=r.returncode, detected=(r.returncode == 1), seed=seed,
                facets=[l.split()[1] for l in facets][:8])
        json.dump(meta, open(os.path.join(dst, 'meta.json'), 'w'), indent=1)
    finally:
        shutil.rmtree(mut, ignore_errors=True)
        shutil.rmtree(os.path.join(VERIF, 'replays'), ignore_errors=True)


if __name__ == '__main__':
    ap = argparse.ArgumentParser()
    ap.add_argument('cmd', choices=['confirm', 'run'])
    ap.add_argument('target')
    ap.add_argument('--skip-tests', action='store_true')
    ap.add_argument('--tier', default='quick')
    ap.add_argument('--props', default='')
    ap.add_argument('--seed', type=int, default=1)
    a = ap.parse_args()
    if a.cmd == 'confirm':
        confirm(a.target, a.skip_tests)
    else:
        run(a.target, a.tier, [p for p in a.props.split(',') if p], a.seed)
