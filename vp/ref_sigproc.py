"""
Minimal SIGPROC filterbank writer / reader and HDF5 (filterbank-in-h5) reader that do not use
blimpy: the independent side of file round trips (C03, C06, C19).

Layout: keyword records  <int32 len><name>[value]  between HEADER_START and HEADER_END, then
float32 data, time-major: sample t, IF 0, channel c at offset ((t*nifs)*nchans + c)*4.
Channel c has frequency fch1 + c*foff (MHz).
"""
import struct

import numpy as np

INT_KEYS = {'telescope_id', 'machine_id', 'data_type', 'barycentric', 'pulsarcentric', 'nbits',
            'nsamples', 'nchans', 'nifs', 'nbeams', 'ibeam'}
DBL_KEYS = {'az_start', 'za_start', 'tstart', 'tsamp', 'fch1', 'foff', 'refdm', 'period',
            'src_raj', 'src_dej'}
STR_KEYS = {'rawdatafile', 'source_name'}


def _kw(name):
    b = name.encode()
    return struct.pack('<i', len(b)) + b


def write_fil(path, data, fch1_mhz, foff_mhz, tsamp, tstart_mjd=59000.0, source_name='REFSRC',
              extra=None):
    """data: (nints, nchans) in FILE order (column c at fch1 + c*foff)."""
    data = np.asarray(data, dtype='<f4')
    nints, nchans = data.shape
    hdr = dict(telescope_id=6, machine_id=0, data_type=1, rawdatafile='ref.raw', source_name=source_name,
               barycentric=0, pulsarcentric=0, az_start=0.0, za_start=0.0, src_raj=0.0, src_dej=0.0,
               tstart=float(tstart_mjd), tsamp=float(tsamp), nbits=32, fch1=float(fch1_mhz),
               foff=float(foff_mhz), nchans=int(nchans), nifs=1, ibeam=1, nbeams=1)
    if extra:
        hdr.update(extra)
    out = [_kw('HEADER_START')]
    for k, v in hdr.items():
        out.append(_kw(k))
        if k in INT_KEYS:
            out.append(struct.pack('<i', int(v)))
        elif k in DBL_KEYS:
            out.append(struct.pack('<d', float(v)))
        elif k in STR_KEYS:
            b = v.encode() if isinstance(v, str) else bytes(v)
            out.append(struct.pack('<i', len(b)) + b)
        else:
            raise ValueError(k)
    out.append(_kw('HEADER_END'))
    with open(path, 'wb') as f:
        f.write(b''.join(out))
        f.write(data.tobytes())
    return hdr


def read_fil(path):
    """Returns (header dict, data[nints, nchans] float32 in file order)."""
    with open(path, 'rb') as f:
        buf = f.read()
    pos = 0

    def rd_str():
        nonlocal pos
        (n,) = struct.unpack_from('<i', buf, pos)
        pos += 4
        if n < 1 or n > 80:
            raise ValueError(f'bad keyword length {n} at {pos}')
        s = buf[pos:pos + n]
        pos += n
        return s
    if rd_str() != b'HEADER_START':
        raise ValueError('not a filterbank file')
    hdr = {}
    while True:
        k = rd_str().decode()
        if k == 'HEADER_END':
            break
        if k in INT_KEYS:
            (hdr[k],) = struct.unpack_from('<i', buf, pos)
            pos += 4
        elif k in DBL_KEYS:
            (hdr[k],) = struct.unpack_from('<d', buf, pos)
            pos += 8
        elif k in STR_KEYS:
            hdr[k] = rd_str().decode()
        else:
            raise ValueError(f'unknown keyword {k}')
    nbits = hdr.get('nbits', 32)
    if nbits != 32:
        raise ValueError('only 32-bit data supported by the reference reader')
    nch = hdr['nchans']
    nifs = hdr.get('nifs', 1)
    body = np.frombuffer(buf, dtype='<f4', offset=pos)
    if body.size % (nch * nifs):
        raise ValueError(f'data size {body.size} is not a multiple of nchans*nifs={nch * nifs}')
    data = body.reshape(-1, nifs, nch)[:, 0, :]
    hdr['_nints'] = data.shape[0]
    hdr['_data_offset'] = pos
    return hdr, np.array(data)


def read_h5(path):
    """Filterbank-in-HDF5 as written by blimpy: dataset 'data' (nints, nifs, nchans) + attrs."""
    import h5py
    with h5py.File(path, 'r') as h:
        d = h['data']
        hdr = {}
        for k, v in d.attrs.items():
            if isinstance(v, bytes):
                v = v.decode()
            elif isinstance(v, np.generic):
                v = v.item()
                if isinstance(v, bytes):
                    v = v.decode()
            hdr[k] = v
        data = np.array(d[:, 0, :], dtype=np.float32)
    hdr['_nints'] = data.shape[0]
    return hdr, data
