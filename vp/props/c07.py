"""C07 - voltage frequency registration: the written header locates every tone."""
import math
import os

import numpy as np
from hypothesis import strategies as st

from vp import core, gen, volt, ref_guppi

PROP_ID = 'C07'
LEVEL = 'exploration'
BUDGET = {'quick': 10000, 'thorough': 60000}
RULE = ('Hypothesis draws a backend configuration (sample rate, 8..64 branches, start_chan/num_chans, 1-2 pols, 8/4 bit, '
        'both orientations, digitiser on/off, low seeded noise) and one tone at fch1 +- (c+beta)*|chan_bw| in any recorded '
        'coarse channel except the one straddling DC, beta in (-0.45,0.45) at least one fine bin from the centre, on and off '
        'fine-bin centres, optionally drifting (up to +-2 fine bins per fine spectrum). The recording is parsed by an '
        'independent GUPPI reader and fine-channelised per coarse channel by own code (FFT length L in {16,32,64}); the '
        'arg-max (coarse, fine) bin converted with the FILE\'S OWN header (OBSFREQ, OBSNCHAN/NANTS, CHAN_BW) must be within '
        'one fine bin of the tone; for chirps the peak of successive fine spectra must follow f_start + drift*t_mid within '
        '1.5 bins (+ half the per-spectrum sweep). get_raw_params must reproduce fch1/chan_bw/orientation/sizes; '
        'get_pfb_waterfall and get_waterfall_from_raw (2 pols, 8 bit, as documented) must equal an own reduction with the '
        'requested FFT length and integration factor for padded, unpadded and aligned headers. In a third of the cases the '
        'same path held a different recording earlier in the process (other orientation/centre/sizes) that the library\'s readers were used on. Non-trivial: peak >= 20x the '
        'median bin and (start_chan > 0 or descending).')
ASSUMPTIONS = ['fine bin k of coarse channel c (after fftshift) is at OBSFREQ + (c-(nchan-1)/2)*CHAN_BW + (k-L/2)*CHAN_BW/L',
               'PFB spectrum n is centred num_taps/2 windows after its first sample', 'tone in the DC-straddling channel and exact channel centres excluded (property)']
REQUIRED_CLASSES = ['asc', 'desc', 'start_chan=0', 'start_chan>0', 'pols=1', 'pols=2', 'chirp', 'L!=n', 'quicklook',
                    'quicklook_unpadded', 'quicklook_aligned', 'quicklook_padded', 'array', 'quantity_arguments', 'record_after_aborted_record', 'path_used_earlier', 'quicklook_positional']


@st.composite
def strategy_(draw, tier):
    c = draw(volt.volt_config(max_blocks=4, max_m=16, arrays=True, branches=(8, 16, 32, 64), tones=(1, 1), max_antennas=3))
    L = draw(st.sampled_from([16, 32, 64]))
    # enough spectra per channel: at least 2*L (4*L for chirps)
    need = 4 * L
    while c['taps'] * c['m'] * c['nblocks'] < need:
        c['m'] += 1
    c['noise_std'] = draw(st.sampled_from([0.05, 0.2, 0.5]))
    if c['nbits'] == 4:
        c['req_fwhm'] = min(c['req_fwhm'], 6.0)      # a 32-level FWHM saturates 4-bit output: nothing left to locate
    t = c['tones'][0]
    # keep off the centre by at least one fine bin and inside +-0.45
    lo = 1.0 / L + 0.01
    b = draw(st.one_of(gen.finite(lo, 0.45), gen.finite(-0.45, -lo),
                       st.integers(1, int(0.45 * L)).map(lambda k: k / L),       # exactly on a fine-bin centre
                       st.integers(1, int(0.45 * L)).map(lambda k: -k / L)))
    t['beta'] = b
    t['level'] = draw(st.sampled_from([1.0, 2.0]))
    t['bins_per_spectrum'] = draw(st.one_of(st.just(0.0), st.just(0.0), gen.finite(-2, 2)))
    # the coarse channel straddling DC (channel 0 of the filterbank) cannot host a real tone
    if c['start_chan'] == 0 and c['num_chans'] == 1:
        c['start_chan'] = 1 if c['B'] // 2 > 1 else 0
    abort_first = draw(st.sampled_from([False, False, True]))
    if abort_first:
        # the interesting observable after an aborted recording is a drifting tone on the first polarisation
        c['npol'], c['array'], c['na'], c['delays'] = 2, False, 1, None
        c['nblocks'] = max(c['nblocks'], 2)
        t['pol'] = 0
        t['bins_per_spectrum'] = draw(st.sampled_from([1, -1])) * draw(gen.finite(0.3, 1.5))
    return dict(c=c, L=L, n_int=draw(st.integers(1, 4)), units=draw(st.sampled_from([None, None, 'GHz', 'MHz', 'kHz'])),
                abort_first=abort_first, earlier_use=draw(st.sampled_from([False, False, True])),
                call_style=draw(st.sampled_from(['kw', 'positional'])),
                directio=draw(st.sampled_from(['absent', 0, 1, 1])), target_mod=draw(st.sampled_from([None, 0, 5])))


def strategy(tier):
    return strategy_(tier)


def fine_spectra(ts, L):
    """ts: complex time series (n,) -> power spectra (n//L, L), fftshifted so that bin L/2 is the centre."""
    n = (len(ts) // L) * L
    seg = ts[:n].reshape(-1, L)
    return np.abs(np.fft.fftshift(np.fft.fft(seg, axis=1), axes=1)) ** 2 / L


def reduce_ref(x, y, L, n_int):
    """Own version of the quick-look reduction: (time, chans) voltages -> (T//L//n, chans*L)."""
    T, nch = x.shape
    ns = T // L
    out = np.zeros((ns, nch * L))
    for ch in range(nch):
        p = fine_spectra(x[:, ch], L)
        if y is not None:
            p = p + fine_spectra(y[:, ch], L)
        out[:, ch * L:(ch + 1) * L] = p
    ns2 = (ns // n_int) * n_int
    return out[:ns2].reshape(ns2 // n_int, n_int, nch * L).sum(axis=1)


def run_case(case, ctx):
    core.import_setigen()
    from setigen.voltage import raw_utils, waterfall as WF, antenna as AN
    obs = core.Obs()
    c, L, n_int = case['c'], case['L'], case['n_int']
    sz = volt.sizes(c)
    t = c['tones'][0]
    chan_bw_abs = c['sr'] / c['B']
    sign = 1.0 if c['ascending'] else -1.0
    nch = c['num_chans']
    # recorded channel index (avoiding the DC channel)
    idx = t['chan'] % nch
    if c['start_chan'] + idx == 0:
        idx = (idx + 1) % nch
        if c['start_chan'] + idx == 0:
            return obs
    kabs = c['start_chan'] + idx
    f_tone = c['fch1'] + sign * (kabs + t['beta']) * chan_bw_abs
    tbin = c['B'] / c['sr']
    fine_bw = chan_bw_abs / L
    drift = t['bins_per_spectrum'] * fine_bw / (L * tbin)        # Hz/s, signed in sky frequency
    total_T = c['nblocks'] * sz['spb']
    nspec = total_T // L
    # keep a drifting tone inside its coarse channel (|offset| < 0.48) over the recording
    dur = total_T * tbin
    end_beta = t['beta'] + sign * drift * dur / chan_bw_abs
    # ... and at least 1.6 fine bins inside the channel edge, where the fine spectrum wraps around
    if max(abs(end_beta), abs(t['beta'])) > 0.5 - 1.6 / L:
        drift = 0.0
    chirp = drift != 0.0
    obs.cls('asc' if c['ascending'] else 'desc', 'start_chan=0' if c['start_chan'] == 0 else 'start_chan>0',
            f'pols={c["npol"]}', f'bits={c["nbits"]}', 'digitize' if c['digitize'] else 'nodigitize')
    if chirp:
        obs.cls('chirp')
    if L != n_int:
        obs.cls('L!=n')
    ant_idx = 0
    from astropy import units as u
    units = case.get('units')
    fch1_arg, sr_arg = c['fch1'], c['sr']
    if units:
        obs.cls('quantity_arguments')
        fch1_arg = (c['fch1'] / getattr(u, units).to(u.Hz)) * getattr(u, units)
        sr_arg = (c['sr'] * 1e-6) * u.MHz
    if c['array']:
        obs.cls('array')
        src = AN.MultiAntennaArray(num_antennas=c['na'], sample_rate=sr_arg, fch1=fch1_arg, ascending=c['ascending'],
                                   num_pols=c['npol'], delays=list(c['delays']), t_start=c['t_start'], seed=c['seed'])
        ant_idx = t['ant'] % c['na']
        all_streams = [s for a in src.antennas for s in a.streams]
        tone_streams = src.antennas[ant_idx].streams
    else:
        src = AN.Antenna(sample_rate=sr_arg, fch1=fch1_arg, ascending=c['ascending'], num_pols=c['npol'],
                         t_start=c['t_start'], seed=c['seed'])
        all_streams = tone_streams = list(src.streams)
    for s in all_streams:
        s.add_noise(v_mean=0.0, v_std=c['noise_std'])
    # f(t) = f_start + drift*t with t absolute: start so that the tone is at f_tone when the recording starts
    tone_streams[t['pol'] % c['npol']].add_constant_signal(f_start=f_tone - drift * c['t_start'], drift_rate=drift, level=t['level'])
    # one sub-block per block and statistics taken once from the whole first block: with statistics refreshed per
    # tiny sub-block the requantiser's mean removal would distort a slow tone (the caveat the property itself makes)
    be = volt.build_backend(c, src, nsb=1, stats_common_prefix=False, period=-1)
    t_rec = c['t_start']
    if case.get('abort_first') and not c['array'] and c['npol'] == 2 and c['nblocks'] >= 2 and t['pol'] % 2 == 0:
        # a first recording dies inside the y stream after x was already sampled; the antenna is then used again
        obs.cls('record_after_aborted_record')
        state = {'n': 0, 'armed': True}

        def flaky(ts, state=state):
            state['n'] += 1
            if state['armed'] and state['n'] == 2:
                raise RuntimeError('source failure')
            return np.zeros(len(ts))
        src.y.add_signal(flaky)
        try:
            volt.record(be, ctx.path('aborted'), c, header_dict={})
        except RuntimeError:
            pass
        state['armed'] = False
        t_rec = float(src.t_start)          # the second observation starts at the antenna's clock
    hd = {}
    if case['directio'] != 'absent':
        hd['DIRECTIO'] = case['directio']
    dio = case['directio'] != 'absent' and int(case['directio']) != 0
    ncards0 = 16 + (1 if 'DIRECTIO' in hd else 0)       # cards of a template-less header incl. END
    if case['target_mod'] is not None:
        for i in range((case['target_mod'] - ncards0) % 32):
            hd[f'ZZF{i:03d}'] = i
    stem = ctx.path('tone')
    if case.get('earlier_use'):
        # the same path held a different recording before, and the library's readers were used on it
        obs.cls('path_used_earlier')
        volt.earlier_use(stem, dict(c, directio=dio))
    ok, _ = core.call(obs, 'record', volt.record, be, stem, c, header_dict=hd)
    if not ok:
        return obs
    try:
        _, blocks = volt.read_payloads(stem)
    except ref_guppi.RawFormatError as e:
        obs.fail('unparseable', str(e)[:200])
        return obs
    h = blocks[0]['header']
    try:
        obsfreq, cbw, obsnchan = float(h['OBSFREQ']), float(h['CHAN_BW']), int(h['OBSNCHAN'])
        nants = int(h.get('NANTS', 1))
        npol_h, nbits_h = int(h['NPOL']), int(h['NBITS'])
    except (KeyError, ValueError) as e:
        obs.fail('header_cards', repr(e))
        return obs
    nchan_h = obsnchan // nants
    # the band described three ways must be one band: OBSBW = CHAN_BW * channels per antenna (signed like CHAN_BW)
    try:
        obsbw = float(h['OBSBW'])
        if abs(obsbw - cbw * nchan_h) > 1e-9 * abs(cbw * nchan_h):
            obs.fail(f'header_obsbw:{"asc" if c["ascending"] else "desc"}', f'OBSBW {obsbw!r} vs CHAN_BW*nchan {cbw * nchan_h!r}')
    except (KeyError, ValueError) as e:
        obs.fail('header_cards', repr(e))
    v = np.concatenate([ref_guppi.decode(b['data'], obsnchan, npol_h, nbits_h) for b in blocks], axis=1)   # (chan, time, pol)
    # ---- locate the tone with the file's own header -----------------------------------------------
    power = np.zeros((obsnchan, nspec, L))
    for ch in range(obsnchan):
        for p in range(npol_h):
            power[ch] += fine_spectra(v[ch, :, p], L)
    tot = power.sum(axis=1)
    if nants != c['na']:
        obs.fail('header_nants', f'{nants} vs {c["na"]}')
        return obs
    # every antenna/polarisation is requantised to the same target width, so absolute power is not comparable between
    # antennas: the antenna holding the tone is the one with the largest peak-to-median contrast (antenna-major layout)
    contrast = [float(tot[a * nchan_h:(a + 1) * nchan_h].max() / max(np.median(tot[a * nchan_h:(a + 1) * nchan_h]), 1e-300))
                for a in range(nants)]
    ant_f = int(np.argmax(contrast))
    if not chirp and contrast[ant_idx] >= 20 and ant_f != ant_idx:
        obs.fail('tone_in_wrong_antenna', f'largest contrast in antenna {ant_f} ({contrast[ant_f]:.1f}), injected into {ant_idx} ({contrast[ant_idx]:.1f}) of {c["na"]}')
        return obs
    power = power[ant_idx * nchan_h:(ant_idx + 1) * nchan_h]
    tot = tot[ant_idx * nchan_h:(ant_idx + 1) * nchan_h]
    if c['start_chan'] == 0 and nchan_h > 1:
        # the recorded channel that straddles DC never hosts the tone (property) but carries the requantiser's DC spur,
        # which can outweigh a chirp whose power is spread over many fine bins: it is not a candidate
        tot = tot.copy()
        tot[0, :] = 0.0
    # one requantiser serves all channels of an antenna/polarisation: the mean it removes is estimated over all of
    # them, so a slow tone in one channel leaves a constant offset (a spur in the centre bin) in the others. The
    # tone itself is at least one fine bin away from every channel centre (strategy), so centre bins are no candidates
    tot = tot.copy()
    tot[:, L // 2] = 0.0
    ch_f, k_f = np.unravel_index(int(np.argmax(tot)), tot.shape)
    snr = float(tot.max() / max(np.median(tot[tot > 0]) if np.any(tot > 0) else 0.0, 1e-300))
    obs.nontrivial = snr >= 20 and (c['start_chan'] > 0 or not c['ascending'])

    def header_freq(ch, k):
        return (obsfreq + (ch - (nchan_h - 1) / 2) * cbw + (k - L / 2) * cbw / L) * 1e6
    if snr < 20:
        obs.count('weak_tone_cases')
    elif not chirp:
        f_found = header_freq(ch_f, k_f)
        if abs(f_found - f_tone) > 1.0 * fine_bw * (1 + 1e-9):
            obs.fail(f'tone_misplaced:{"asc" if c["ascending"] else "desc"}:{"sc0" if c["start_chan"] == 0 else "sc>0"}',
                     f'tone {f_tone!r} found at {f_found!r} (coarse {ch_f} fine {k_f} of L={L}), off by {(f_found - f_tone) / fine_bw:.2f} fine bins '
                     f'= {(f_found - f_tone) / chan_bw_abs:.3f} coarse channels; recorded idx {idx} beta {t["beta"]} start_chan {c["start_chan"]} nch {nch}')
    elif abs(t['beta'] + sign * drift * ((t_rec - c['t_start']) + dur) / chan_bw_abs) > 0.5 - 1.6 / L:
        obs.count('chirp_left_channel_after_aborted_recording')       # drifted on during the aborted run: nothing to track
    else:
        # instantaneous frequency of successive fine spectra
        worst = 0.0
        for s in range(nspec):
            t_mid = (t_rec - c['t_start']) + (s * L + L / 2 + c['taps'] / 2) * tbin
            f_exp = f_tone + drift * t_mid
            # a chirp sweeping through the channel centre biases the requantiser's mean estimate, which leaves a
            # DC spur in bin L/2 (the property's own caveat about mean removal): do not judge spectra in which the
            # tone is within 1.5 bins of the centre, and ignore the DC bin elsewhere
            k_exp = (f_exp * 1e-6 - obsfreq - (ch_f - (nchan_h - 1) / 2) * cbw) / (cbw / L) + L / 2
            if abs(k_exp - L / 2) < 1.5:
                obs.count('chirp_spectra_skipped_near_centre')
                continue
            ps = power[ch_f, s].copy()
            ps[L // 2] = 0.0
            k_s = int(np.argmax(ps))
            f_got = header_freq(ch_f, k_s)
            worst = max(worst, abs(f_got - f_exp) / fine_bw)
        tol = 1.5 + abs(t['bins_per_spectrum']) / 2
        if ch_f != idx or worst > tol:
            obs.fail(f'chirp_track:{"asc" if c["ascending"] else "desc"}',
                     f'coarse {ch_f} (expected {idx}); worst deviation {worst:.2f} fine bins (tol {tol:.2f}); drift {t["bins_per_spectrum"]:.2f} bins/spectrum')
    # ---- parameters read back from the file -----------------------------------------------------------
    ok, rp = core.call(obs, 'get_raw_params', raw_utils.get_raw_params, stem, c['start_chan'])
    if ok:
        if abs(rp['fch1'] - c['fch1']) > 1e-9 * max(abs(c['fch1']), chan_bw_abs * c['B']):
            obs.fail('raw_params_fch1', f'{rp["fch1"]!r} vs {c["fch1"]!r} (start_chan {c["start_chan"]}, {"asc" if c["ascending"] else "desc"})')
        if abs(rp['chan_bw'] - sign * chan_bw_abs) > 1e-9 * chan_bw_abs or rp['ascending'] != c['ascending']:
            obs.fail('raw_params_chan_bw', f'{rp["chan_bw"]!r} {rp["ascending"]}')
        for k_, want in (('num_pols', c['npol']), ('num_bits', c['nbits']), ('block_size', sz['block_size']), ('num_chans', nch)):
            if rp[k_] != want:
                obs.fail(f'raw_params_{k_}', f'{rp[k_]} vs {want}')
    # ---- quick-look reducers -------------------------------------------------------------------------------
    x0 = v[:obsnchan, :sz['spb'] * 1, 0].T          # block 0, (time, chans)
    y0 = v[:obsnchan, :sz['spb'] * 1, 1].T if npol_h == 2 else None
    if sz['spb'] >= L * n_int:
        if case.get('call_style', 'kw') == 'positional':
            ok, got = core.call(obs, 'get_pfb_waterfall', WF.get_pfb_waterfall, x0, y0, L, n_int)
        else:
            ok, got = core.call(obs, 'get_pfb_waterfall', WF.get_pfb_waterfall, pfb_voltages_x=x0, pfb_voltages_y=y0, fftlength=L, int_factor=n_int)
        if ok:
            want = reduce_ref(x0, y0, L, n_int)
            got = np.asarray(got)
            if got.shape != want.shape:
                obs.fail('pfb_waterfall_shape', f'{got.shape} vs {want.shape}')
            elif np.max(np.abs(got - want)) > 1e-9 * max(np.max(want), 1e-300):
                obs.fail('pfb_waterfall_value', '')
        if c['npol'] == 2 and c['nbits'] == 8 and not c['array']:
            obs.cls('quicklook')
            hdr_len = blocks[0]['hdr_len']
            obs.cls('quicklook_aligned' if hdr_len % 512 == 0 else ('quicklook_padded' if dio else 'quicklook_unpadded'))
            if case.get('call_style', 'kw') == 'positional':
                # the established positional order of the signature: (file, block_size, num_chans, int_factor, fftlength)
                obs.cls('quicklook_positional')
                ok, got = core.call(obs, 'get_waterfall_from_raw', WF.get_waterfall_from_raw, volt.raw_files(stem)[0],
                                    sz['block_size'], nch, n_int, L)
            else:
                ok, got = core.call(obs, 'get_waterfall_from_raw', WF.get_waterfall_from_raw, volt.raw_files(stem)[0],
                                    sz['block_size'], nch, int_factor=n_int, fftlength=L)
            if ok:
                want = reduce_ref(x0, y0, L, n_int)
                got = np.asarray(got)
                which = 'aligned' if hdr_len % 512 == 0 else ('padded' if dio else 'unpadded')
                if got.shape != want.shape:
                    obs.fail(f'waterfall_from_raw_shape:{"L=n" if L == n_int else "L!=n"}', f'{got.shape} vs {want.shape} (fftlength {L}, int_factor {n_int})')
                elif np.max(np.abs(got - want)) > 1e-9 * max(np.max(want), 1e-300):
                    obs.fail(f'waterfall_from_raw_value:{which}', f'header {hdr_len} bytes, DIRECTIO {"on" if dio else "off"}')
    return obs
