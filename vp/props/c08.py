"""C08 - the polyphase filterbank equals its FIR+DFT definition and is invariant to chunking."""
import itertools
import warnings

import numpy as np
from hypothesis import strategies as st

from vp import core, gen

PROP_ID = 'C08'
LEVEL = 'exploration'
BUDGET = {'quick': 5000, 'thorough': 60000}
RULE = ('Model-based histories over 1..3 filterbank objects: Hypothesis draws (num_taps 1..8, num_branches '
        'in {2..64 even} or small odd, window, input dtype real/complex/int, seed) and a list of feeds '
        '(object, chunk of w windows, cache on/off, optional cache reset, memory layout of the chunk: contiguous, strided view, '
        'one part of a complex/2-column array, negative stride, read-only); each cached stream must deliver '
        'exactly the spectra of a one-shot reference over everything fed so far (direct windowed sum + explicit '
        'DFT matrix, 1e-10 relative), un-cached calls must equal the reference of the chunk alone and leave '
        'cached streams undisturbed; linearity and Re/Im decomposition are checked per case; additionally all '
        '2^(W-1) compositions of W<=6 windows are enumerated for six fixed configurations. Non-trivial: >=2 '
        'cached chunks on one stream, or complex input.')
ASSUMPTIONS = ['chunks are whole multiples of num_taps*num_branches samples (the property\'s admissible sizes)',
               'reference DFT by explicit matrix product in complex128', 'comparison tolerance 1e-10 relative to the largest reference magnitude']
REQUIRED_CLASSES = ['caller_overwrites_chunk_buffer', 'cache_keyword_omitted', 'non_contiguous_input', 'readonly_input', 'dtype=real', 'dtype=complex', 'dtype=int', 'chunks>=2', 'objects>=2', 'uncached_interleaved',
                    'odd_branches', 'enumerated', 'long_call', 'huge_call', 'forked_object', 'estimate_between_chunks', 'estimate_before_first_chunk']

WINDOWS = ['hamming', 'hann', 'boxcar', 'blackman']


def strategy(tier):
    feed = st.fixed_dictionaries({'obj': st.integers(0, 2), 'w': st.integers(1, 4),
                                  # 'default' leaves the keyword out: the documented default is to keep the stream's tail
                                  'cache': st.sampled_from([True, True, 'default', False]),
                                  'reset': st.sampled_from([False] * 7 + [True]),
                                  # memory layout of the chunk handed over (same values)
                                  'layout': st.sampled_from(['contig'] * 3 + ['strided', 'part_of_complex', 'reversed', 'readonly']),
                                  # replace object (obj+1) by a copy of this one before feeding: both continue independently
                                  'fork': st.sampled_from([None] * 5 + ['copy', 'deepcopy']),
                                  # ask the object for its channelised-noise estimate first (as a backend does lazily):
                                  # a read-only side computation that must not disturb the stream, at its start or mid-way
                                  'estimate': st.sampled_from([False] * 5 + [True])})
    return st.fixed_dictionaries({
        'taps': st.integers(1, 8),
        'branches': st.one_of(st.sampled_from([2, 4, 8, 16, 32, 64]), st.sampled_from([3, 5, 6, 7, 9, 10, 12])),
        'window': st.sampled_from(WINDOWS),
        'dtype': st.sampled_from(['real', 'real', 'complex', 'int']),
        'seed': st.integers(0, 2 ** 20),
        'nobj': st.integers(1, 3),
        'feeds': st.lists(feed, min_size=1, max_size=8),
        'lin': st.tuples(gen.finite(-3, 3), gen.finite(-3, 3)),
        # occasionally one long one-shot call (thousands of spectra, as the recording backend issues)
        'big': st.one_of(st.none(), st.none(), st.none(), st.integers(40, 900)),
    }).map(_fixup)


def _fixup(c):
    # a 2- or 3-point hann/blackman window is identically zero and cannot be normalised
    # (scipy returns NaN coefficients): not a filterbank; keep at least 4 coefficients
    while c['taps'] * c['branches'] < 4:
        c['taps'] += 1
    return c


def enumerate_cases(tier):
    configs = [(4, 8, 'hamming', 'real'), (3, 6, 'hann', 'complex'), (2, 16, 'hamming', 'int'),
               (8, 4, 'blackman', 'real'), (1, 8, 'boxcar', 'real'), (5, 5, 'hamming', 'complex')]
    maxw = 6 if tier == 'thorough' else 5
    yield dict(HUGE)            # one call beyond 2**22 output samples, as a long recording block produces
    for taps, br, win, dt in configs:
        for W in range(2, maxw + 1):
            for cuts in itertools.product([0, 1], repeat=W - 1):
                comp, cur = [], 1
                for c in cuts:
                    if c:
                        comp.append(cur)
                        cur = 1
                    else:
                        cur += 1
                comp.append(cur)
                yield dict(taps=taps, branches=br, window=win, dtype=dt, seed=W * 31 + br, nobj=1,
                           feeds=[dict(obj=0, w=w, cache=True, reset=False) for w in comp],
                           lin=[1.5, -0.5], enumerated=True)


HUGE = dict(taps=1, branches=64, window='hamming', dtype='real', seed=7, nobj=1, feeds=[], lin=[1.0, 0.0], big=None, huge=65600)


def make_input(n, dtype, rs):
    if dtype == 'real':
        return rs.standard_normal(n)
    if dtype == 'int':
        return rs.randint(-128, 128, size=n)
    return rs.standard_normal(n) + 1j * rs.standard_normal(n)


def lay(x, layout):
    """The same values in another memory layout: a strided view, one part of a complex array, a reversed view, a
    read-only buffer. All are ordinary numpy arrays a caller may hand over."""
    if layout == 'strided':
        buf = np.zeros(2 * len(x), dtype=x.dtype)
        buf[1::2] = 12345
        buf[::2] = x
        return buf[::2]
    if layout == 'part_of_complex' and x.dtype.kind == 'f':
        return (x + 1j * (x[::-1] + 7.0)).real
    if layout == 'part_of_complex' and x.dtype.kind == 'c':
        buf = np.zeros((len(x), 2), dtype=x.dtype)
        buf[:, 0] = x
        buf[:, 1] = -3.0
        return buf[:, 0]
    if layout == 'reversed':
        return x[::-1].copy()[::-1]
    y = x.copy()
    if layout == 'readonly':
        y.setflags(write=False)
    return y


def reference(x, h, T, B):
    """Spectra of the FIR+DFT definition; rows n = 0 .. (len(x)//B - T) over whole windows."""
    x = np.asarray(x)
    W = len(x) // (T * B)
    rows = max(0, (W - 1) * T)
    hp = np.asarray(h, dtype=float).reshape(T, B)
    k = np.arange(B // 2)[:, None]
    b = np.arange(B)[None, :]
    F = np.exp(-2j * np.pi * k * b / B) / np.sqrt(B)
    out = np.zeros((rows, B // 2), dtype=complex)
    xc = x.astype(complex)
    for n in range(rows):
        seg = xc[n * B:n * B + T * B].reshape(T, B)
        out[n] = F @ (seg * hp).sum(axis=0)
    return out


def reference_fast(x, h, T, B):
    """Same definition, vectorised with a sliding window (checked against reference() per case)."""
    x = np.asarray(x).astype(complex)
    W = len(x) // (T * B)
    rows = max(0, (W - 1) * T)
    if rows == 0:
        return np.zeros((0, B // 2), dtype=complex)
    xb = x[:W * T * B].reshape(W * T, B)
    win = np.lib.stride_tricks.sliding_window_view(xb, T, axis=0)[:rows]      # (rows, B, T)
    s = np.einsum('nbt,tb->nb', win, np.asarray(h, dtype=float).reshape(T, B))
    k = np.arange(B // 2)[:, None]
    b = np.arange(B)[None, :]
    F = np.exp(-2j * np.pi * k * b / B) / np.sqrt(B)
    return s @ F.T


def close(a, b, scale=None):
    a, b = np.asarray(a), np.asarray(b)
    if a.shape != b.shape:
        return False, f'shape {a.shape} vs {b.shape}'
    if a.size == 0:
        return True, ''
    s = max(float(np.max(np.abs(b))), 1e-300) if scale is None else scale
    e = float(np.max(np.abs(a - b)))
    return e <= 1e-10 * s, f'max err {e:.3e} (scale {s:.3e})'


def run_case(case, ctx):
    core.import_setigen()
    from setigen.voltage import polyphase_filterbank as P
    import scipy.signal
    obs = core.Obs()
    T, B, win, dtype = case['taps'], case['branches'], case['window'], case['dtype']
    obs.cls('dtype=' + dtype, 'window=' + win, 'odd_branches' if B % 2 else 'even_branches')
    if case.get('enumerated'):
        obs.cls('enumerated')
    rs = np.random.RandomState(case['seed'])
    nobj = case['nobj']
    with warnings.catch_warnings():
        warnings.simplefilter('ignore')
        ok, objs = core.call(obs, 'construct', lambda: [P.PolyphaseFilterbank(num_taps=T, num_branches=B, window_fn=win)
                                                        for _ in range(nobj)])
        if not ok:
            return obs
        h = np.asarray(objs[0].window, dtype=float)
        # window facet
        if h.shape != (T * B,):
            obs.fail('window_length', h.shape)
            return obs
        if np.max(np.abs(h - h[::-1])) > 1e-9 * np.max(np.abs(h)):
            obs.fail('window_symmetric', '')
        if abs(h.sum() - T * B) > 1e-9 * T * B:
            obs.fail('window_sum', f'{h.sum()} vs {T * B}')
        hw = scipy.signal.firwin(T * B, cutoff=1.0 / B, window=win, scale=True) * T * B
        if np.max(np.abs(h - hw)) > 1e-9 * np.max(np.abs(hw)):
            obs.fail('window_design', '')
        ok, h2 = core.call(obs, 'get_pfb_window', P.get_pfb_window, T, B, win)
        if ok and not np.array_equal(np.asarray(h2), h):
            obs.fail('window_function_vs_object', '')

        streams = [np.zeros(0, dtype=complex if dtype == 'complex' else float) for _ in range(nobj)]
        emitted = [0] * nobj
        chunks = [0] * nobj
        saw_uncached_between = False
        for f in case['feeds']:
            k = f['obj'] % nobj
            pfb = objs[k]
            if f.get('fork') and nobj >= 2:
                import copy as _copy
                j = (k + 1) % nobj
                ok, forked = core.call(obs, 'fork', (_copy.copy if f['fork'] == 'copy' else _copy.deepcopy), pfb)
                if ok:
                    objs[j] = forked
                    streams[j] = streams[k].copy()
                    emitted[j] = emitted[k]
                    chunks[j] = chunks[k]
                    obs.cls('forked_object')
            if f['reset']:
                core.call(obs, 'reset', pfb._reset_cache)
                streams[k] = streams[k][:0]
                emitted[k] = 0
                obs.cls('with_reset')
            if f.get('estimate'):
                ok, est = core.call(obs, 'estimate_channelized_stds', pfb.estimate_channelized_stds, factor=T + 9, seed=3)
                obs.cls('estimate_between_chunks' if chunks[k] else 'estimate_before_first_chunk')
                if ok and (np.asarray(est).shape != (2,) or not np.all(np.isfinite(np.asarray(est, dtype=float)))):
                    obs.fail('estimate_channelized_stds_result', repr(est)[:100])
            x = make_input(f['w'] * T * B, dtype, rs)
            layout = f.get('layout', 'contig')
            if layout != 'contig':
                obs.cls('layout=' + layout, 'non_contiguous_input' if layout != 'readonly' else 'readonly_input')
            if f['cache']:
                streams[k] = np.concatenate([streams[k], x])
                full = reference(streams[k], h, T, B)
                want = full[emitted[k]:]
                emitted[k] = len(full)
                chunks[k] += 1
                passed = lay(x, layout)
                if f['cache'] == 'default':
                    obs.cls('cache_keyword_omitted')
                    ok, got = core.call(obs, 'channelize', pfb.channelize, passed)
                else:
                    ok, got = core.call(obs, 'channelize', pfb.channelize, passed, cache=True)
                if passed.flags.writeable:
                    # the chunk buffer belongs to the caller, who refills it for the next read
                    passed[...] = 77
                    obs.cls('caller_overwrites_chunk_buffer')
                if ok:
                    good, why = close(got, want, scale=max(float(np.max(np.abs(full))) if full.size else 1.0, 1e-300))
                    if not good:
                        obs.fail(f'stream:{dtype}:chunk{min(chunks[k], 3)}', why)
                        break
            else:
                want = reference(x, h, T, B)
                if any(chunks):
                    saw_uncached_between = True
                ok, got = core.call(obs, 'channelize_nocache', pfb.channelize, lay(x, layout), cache=False)
                if ok:
                    good, why = close(got, want)
                    if not good:
                        obs.fail(f'oneshot:{dtype}', why)
                        break
        if max(chunks) >= 2:
            obs.cls('chunks>=2')
        if sum(1 for c in chunks if c) >= 2:
            obs.cls('objects>=2')
        if saw_uncached_between and max(chunks) >= 1:
            obs.cls('uncached_interleaved')
        obs.nontrivial = max(chunks) >= 2 or dtype == 'complex'

        huge = case.get('huge')
        if huge:
            obs.cls('huge_call')
            xh = make_input(huge * T * B, dtype, rs)
            fresh = P.PolyphaseFilterbank(num_taps=T, num_branches=B, window_fn=win)
            ok, got = core.call(obs, 'channelize_huge', fresh.channelize, xh.copy(), cache=False)
            if ok:
                want = reference_fast(xh, h, T, B)
                good, why = close(got, want)
                if not good:
                    gd = np.abs(np.asarray(got) - want).max(axis=1)
                    obs.fail('oneshot_huge', why + f'; first bad spectrum {int(np.flatnonzero(gd > 1e-8 * np.abs(want).max())[0])} of {len(want)}')
                # the same stream fed in two chunks
                fresh2 = P.PolyphaseFilterbank(num_taps=T, num_branches=B, window_fn=win)
                half = (huge // 2) * T * B
                a = fresh2.channelize(xh[:half].copy(), cache=True)
                b = fresh2.channelize(xh[half:].copy(), cache=True)
                good, why = close(np.concatenate([a, b]), want)
                if not good:
                    obs.fail('chunked_huge', why)
            obs.nontrivial = True
            return obs
        big = case.get('big')
        if big:
            wb = max(2, int(big) // max(1, T // 2))
            xb = make_input(wb * T * B, dtype, rs)
            small = xb[:3 * T * B]
            good, why = close(reference_fast(small, h, T, B), reference(small, h, T, B))
            if not good:
                raise core.HarnessError('reference_fast disagrees with reference: ' + why)
            fresh = P.PolyphaseFilterbank(num_taps=T, num_branches=B, window_fn=win)
            ok, got = core.call(obs, 'channelize_big', fresh.channelize, xb.copy(), cache=False)
            if ok:
                want = reference_fast(xb, h, T, B)
                good, why = close(got, want)
                if not good:
                    obs.fail(f'oneshot_long:{dtype}', why + f' rows={len(want)}')
                obs.cls('long_call' if len(want) > 1024 else 'medium_call')

        # algebraic facets on a fresh object: linearity, Re/Im decomposition, free function
        n = 3 * T * B
        x, y = make_input(n, dtype, rs), make_input(n, 'real', rs)
        a, b = case['lin']
        fresh = P.PolyphaseFilterbank(num_taps=T, num_branches=B, window_fn=win)
        ok1, cx = core.call(obs, 'lin_x', fresh.channelize, x.copy(), cache=False)
        ok2, cy = core.call(obs, 'lin_y', fresh.channelize, y.copy(), cache=False)
        ok3, cz = core.call(obs, 'lin_z', fresh.channelize, a * x + b * y, cache=False)
        if ok1 and ok2 and ok3:
            want = a * np.asarray(cx) + b * np.asarray(cy)
            s = max(float(np.max(np.abs(cx))), float(np.max(np.abs(cy))), 1e-300) * (abs(a) + abs(b) + 1)
            good, why = close(cz, want, scale=s)
            if not good:
                obs.fail(f'linearity:{dtype}', why)
        if dtype == 'complex' and ok1:
            okr, cr = core.call(obs, 're', fresh.channelize, x.real.copy(), cache=False)
            oki, ci = core.call(obs, 'im', fresh.channelize, x.imag.copy(), cache=False)
            if okr and oki:
                good, why = close(cx, np.asarray(cr) + 1j * np.asarray(ci))
                if not good:
                    obs.fail('complex_decomposition', why)
        # the rfft-based helper is defined for real voltages only
        ok, gv = (False, None) if dtype == 'complex' else core.call(
            obs, 'get_pfb_voltages', P.get_pfb_voltages, x.copy(), T, B, win)
        if ok and ok1:
            gv = np.asarray(gv)
            if gv.shape[0] != np.asarray(cx).shape[0] or gv.shape[1] < B // 2:
                obs.fail('free_function_shape', f'{gv.shape} vs {np.asarray(cx).shape}')
            else:
                good, why = close(gv[:, :B // 2], reference(x, h, T, B))
                if not good:
                    obs.fail('free_function_value', why)
    return obs
