"""C16 - cadence injection is time-continuous and leaves frame time axes intact."""
import numpy as np
from hypothesis import strategies as st

from vp import core, gen, sig as S

PROP_ID = 'C16'
LEVEL = 'fault_enumeration'
BUDGET = {'quick': 7000, 'thorough': 60000}
RULE = ('Hypothesis draws a cadence (1..6 compatible frames with individual tchans, a start time incl. '
        'unix-scale 1.7e9, per-frame gaps, optional slew overwrite, optional selection by slice, order label, '
        'reversed slice or arbitrary index list (so the first member need not be the earliest)), a signal description and options as in C01 (incl. sub-sample integration and smearing) and '
        '1..3 repeated injections; per member frame the added data must equal the reference evaluation at '
        'frame.ts + (t_start_k - t_start_0). Fault sequences: for the drawn callable component (path, time '
        'profile or frequency profile) a wrapper raises on its k-th call, for EVERY k from 1 to the number of '
        'frames (enumerated inside the case); after each failed call every frame.ts must be bit-identical to '
        'before and later frames untouched. Slew overwrite and consolidate() are compared with closed forms. '
        'Non-trivial: >=2 frames, non-zero offset, and a drifting or time-varying signal.')
ASSUMPTIONS = ['offset of frame k is the double (t_start_k - t_start_0), as the property words it',
               'array path / time profile only when all members have equal tchans',
               'tolerance as in C01']
REQUIRED_CLASSES = ['frames>=2', 'fault', 'select=slice', 'select=label', 'select=index', 'smear', 'int_path', 'int_t',
                    'overwrite', 'unix_scale', 'repeat', 'mixed_history', 'members_consolidated', 'fault_not_exception_subclass', 'member_replaced_in_place']


@st.composite
def strategy_(draw, tier):
    g = draw(gen.geometry(max_fchans=40, max_tchans=6, routes=('sizes',)))
    n = draw(st.integers(1, 6))
    same_t = draw(st.booleans())
    frames = [dict(tchans=g['tchans'] if same_t else draw(st.integers(1, 6)),
                   gap=draw(st.one_of(st.just(0.0), gen.finite(0, 50)))) for _ in range(n)]
    kinds_p = None if same_t else ['constant', 'squared', 'sine', 'rfi', 'custom', 'float', 'int']
    kinds_t = None if same_t else ['constant', 'sine', 'pgauss', 'custom', 'float', 'int']
    sg = dict(path=draw(S.path_strategy(kinds_p)), t=draw(S.t_strategy(kinds_t)), f=draw(S.f_strategy()),
              bp=draw(st.sampled_from([{'kind': 'none'}, {'kind': 'constant', 'level': 0.5}, {'kind': 'custom', 'a': 0.7}])))
    return dict(g=g, frames=frames, t0=draw(st.sampled_from([0.0, 1000.0, 1.7e9, 1.7e9 + 0.123])),
                overwrite=draw(st.sampled_from([None, None, 0.0, 30.0, 2.5])),
                sig=sg, opts=draw(S.opts_strategy()),
                select=draw(st.sampled_from([None, None, 'slice', 'label', 'index', 'reversed'])),
                sel_idx=draw(st.lists(st.integers(0, 5), min_size=1, max_size=5)), sel_form=draw(st.sampled_from(['list', 'tuple', 'ndarray'])),
                sel_a=draw(st.integers(0, 5)), sel_b=draw(st.integers(1, 6)),
                order=draw(st.sampled_from(['ABACAD', 'ABABAB', 'AAABBB'])),
                repeat=draw(st.integers(1, 3)),
                fault=draw(st.sampled_from([None, None, 'path', 't', 'f'])), fault_exc=draw(st.sampled_from(['Exception', 'Exception', 'BaseException', 'KeyboardInterrupt'])),
                consolidated=draw(st.sampled_from([False, False, False, True])), mixed=draw(st.booleans()))


def strategy(tier):
    return strategy_(tier)


class Boom(RuntimeError):
    pass


class BoomBase(BaseException):
    """Not derived from Exception (like KeyboardInterrupt raised while a callback runs)."""


def make_faulty(fn, k, nargs, exc=Boom):
    """Wrap callable fn so that its k-th call raises."""
    state = {'n': 0}
    if nargs == 1:
        def w(x):
            state['n'] += 1
            if state['n'] == k:
                raise exc(f'call {k}')
            return fn(x)
    else:
        def w(x, c):
            state['n'] += 1
            if state['n'] == k:
                raise exc(f'call {k}')
            return fn(x, c)
    return w


def build_cadence(stg, case):
    g = case['g']
    frames = []
    t = case['t0']
    for k, fd in enumerate(case['frames']):
        fr = stg.Frame(fchans=g['fchans'], tchans=fd['tchans'], df=g['df'], dt=g['dt'], fch1=g['fch1'],
                       ascending=g['ascending'], t_start=t + fd['gap'], source_name=f'F{k}')
        frames.append(fr)
        t = fr.t_start + fd['tchans'] * g['dt']
    if case.get('consolidated') and len(frames) >= 2:
        # members that are themselves consolidated cadences: their time axis is absolute and may have gaps
        out = []
        for i in range(0, len(frames) - 1, 2):
            out.append(stg.Cadence(frames[i:i + 2]).consolidate())
        if len(frames) % 2:
            out.append(frames[-1])
        return out
    return frames


def run_case(case, ctx):
    stg = core.import_setigen()
    obs = core.Obs()
    g, sg, opts = case['g'], case['sig'], case['opts']
    frames = build_cadence(stg, case)
    nfr = len(frames)
    if case.get('consolidated') and len(case['frames']) >= 2:
        obs.cls('members_consolidated')
        # consolidated members have twice the rows and a gapped absolute time axis: arrays sized for the original
        # frames do not apply, and the sub-sample integration grid is only defined for a contiguous axis
        if sg['path']['kind'] == 'array' or sg['t']['kind'] == 'array':
            return obs
        opts = dict(opts, integrate_path=False, integrate_t_profile=False)
    ow = case['overwrite']
    if ow is not None:
        ok, cad = core.call(obs, 'construct', stg.OrderedCadence, frame_list=frames, order=case['order'],
                            t_slew=ow, t_overwrite=True)
        obs.cls('overwrite')
    else:
        ok, cad = core.call(obs, 'construct', stg.OrderedCadence, frame_list=frames, order=case['order'])
    if not ok:
        return obs
    if case['t0'] >= 1e9:
        obs.cls('unix_scale')
    # ---- slew overwrite: consecutive frames spaced by exactly the slew time ----------------
    if ow is not None:
        for i in range(1, nfr):
            want = frames[i - 1].t_start + frames[i - 1].tchans * frames[i - 1].dt + ow
            if abs(frames[i].t_start - want) > 2 * gen.ulp(want):
                obs.fail('overwrite_times', f'frame {i}: {frames[i].t_start!r} vs {want!r}')
                break
        ok, sl = core.call(obs, 'slew_times', getattr, cad, 'slew_times')
        if ok and nfr > 1:
            sl = np.asarray(sl, dtype=float)
            if sl.shape != (nfr - 1,) or np.max(np.abs(sl - ow)) > 4 * gen.ulp(frames[-1].t_stop):
                obs.fail('slew_times', f'{sl.tolist()} vs {ow}')

    # ---- selection -------------------------------------------------------------------------
    sel = case['select']
    target = cad
    members = list(frames)
    t_constructed = [float(f.t_start) for f in frames]       # selecting frames is read-only
    if sel == 'slice':
        a = case['sel_a'] % nfr
        b = a + 1 + case['sel_b'] % (nfr - a)
        ok, target = core.call(obs, 'slice', lambda: cad[a:b])
        members = frames[a:b]
        obs.cls('select=slice')
    elif sel == 'label':
        labels = [case['order'][i] for i in range(nfr)]
        lab = labels[case['sel_a'] % nfr]
        ok, target = core.call(obs, 'by_label', cad.by_label, lab)
        members = [f for f, l in zip(frames, labels) if l == lab]
        obs.cls('select=label')
    elif sel == 'index':
        # an index-array subset in arbitrary order: the first member need not be the earliest
        ii = list(dict.fromkeys(i % nfr for i in case['sel_idx']))     # distinct members, arbitrary order
        form = case.get('sel_form', 'list')
        sel_obj = {'list': list(ii), 'tuple': tuple(ii), 'ndarray': np.array(ii)}[form]
        ok, target = core.call(obs, f'index_select[{form}]', lambda: cad[sel_obj])
        members = [frames[i] for i in ii]
        obs.cls('select=index')
    elif sel == 'reversed':
        ok, target = core.call(obs, 'reversed', lambda: cad[::-1])
        members = frames[::-1]
        obs.cls('select=index')
    if not ok:
        return obs
    if [id(f) for f in target] != [id(f) for f in members]:
        obs.fail('selection_members', '')
        return obs
    moved = [i for i, f in enumerate(frames) if float(f.t_start) != t_constructed[i]]
    if moved:
        obs.fail(f'selection_moved_frame_times:{sel}' + (':overwrite' if ow is not None else ''),
                 f'frames {moved} of {nfr}: e.g. {frames[moved[0]].t_start!r} was {t_constructed[moved[0]]!r}')
        return obs
    m = len(members)
    obs.cls('frames>=2' if m >= 2 else 'frames=1')

    ax0 = S.Axes(members[0].fs, members[0].ts, members[0].df, members[0].dt)
    smear = opts['doppler_smearing']
    flags = [n for n, on in (('smear', smear), ('int_f', opts['integrate_f_profile']),
                             ('int_t', opts['integrate_t_profile'] and sg['t']['kind'] in ('constant', 'sine', 'pgauss', 'custom')),
                             ('int_path', opts['integrate_path'] and sg['path']['kind'] in ('constant', 'squared', 'sine', 'rfi', 'custom'))) if on]
    obs.cls(*flags)
    pos, kw = S.call_options(opts, None)
    ts_before = [np.array(f.ts, copy=True) for f in members]

    def ts_intact(tag):
        for k, f in enumerate(members):
            if not np.array_equal(np.asarray(f.ts), ts_before[k]):
                d = float(np.max(np.abs(np.asarray(f.ts) - ts_before[k])))
                obs.fail(f'ts_not_restored:{tag}', f'frame {k} of {m}: max deviation {d!r}')
                f.ts = ts_before[k].copy()      # repair so that later facets are judged on their own

    # ---- fault sequences: a callback that raises on its k-th call, for every k ----------------
    fault = case['fault']
    if fault is not None:
        comp_kind = {'path': sg['path']['kind'], 't': sg['t']['kind'], 'f': 'callable'}[fault]
        if comp_kind not in ('array', 'float', 'int'):
            obs.cls('fault')
            # the frequency profile is called once per smearing sub-step, the others once per frame
            per_frame = opts['smearing_subsamples'] if (fault == 'f' and smear) else 1
            for kf in range(m):
                for sub in ([1] if per_frame == 1 else [1, per_frame]):
                    k = kf * per_frame + sub
                    path = S.stg_path(stg, ax0, sg['path'], smear)
                    tprof = S.stg_t(stg, ax0, sg['t'])
                    fprof = S.stg_f(stg, ax0, sg['f'])
                    bp = S.stg_bp(stg, ax0, sg['bp'])
                    exc_t = {'Exception': Boom, 'BaseException': BoomBase, 'KeyboardInterrupt': KeyboardInterrupt}[case.get('fault_exc', 'Exception')]
                    if exc_t is not Boom:
                        obs.cls('fault_not_exception_subclass')
                    if fault == 'path':
                        path = make_faulty(path, k, 1, exc_t)
                    elif fault == 't':
                        tprof = make_faulty(tprof, k, 1, exc_t)
                    else:
                        fprof = make_faulty(fprof, k, 2, exc_t)
                    data_before = [f.data.copy() for f in members]
                    try:
                        target.add_signal(path, tprof, fprof, bp, *pos, **kw)
                        obs.fail('fault_swallowed', f'k={k}')
                    except (Boom, BoomBase, KeyboardInterrupt):
                        pass
                    except BaseException as exc:
                        who, where = core.classify_exception(exc)
                        if who == 'setigen':
                            obs.fail(f'raises:fault_injection:{where}', repr(exc)[:200])
                        else:
                            raise core.HarnessError(repr(exc))
                    ts_intact(f'after_exception[{fault}]')
                    for j in range(kf + 1, m):
                        if not np.array_equal(members[j].data, data_before[j]):
                            obs.fail('later_frame_touched_after_exception', f'fault in frame {kf}, frame {j} changed')
                            break
                    obs.count('fault_points')
            for f in members:
                f.data[...] = 0.0

    # ---- the injection itself, possibly repeated ----------------------------------------------
    rep = case['repeat']
    if rep > 1:
        obs.cls('repeat')
    for r in range(rep):
        path = S.stg_path(stg, ax0, sg['path'], smear)
        tprof = S.stg_t(stg, ax0, sg['t'])
        fprof = S.stg_f(stg, ax0, sg['f'])
        bp = S.stg_bp(stg, ax0, sg['bp'])
        data_before = [f.data.copy() for f in members]
        ok, _ = core.call(obs, 'cadence.add_signal' + ('[' + '+'.join(flags) + ']' if flags else ''),
                          target.add_signal, path, tprof, fprof, bp, *pos, **kw)
        ts_intact('after_injection')
        if not ok:
            return obs
        cache = {}
        t_first = members[0].t_start
        for k, f in enumerate(members):
            ax = S.Axes(f.fs, f.ts, f.df, f.dt)
            off = f.t_start - t_first
            exp, tol, excl = S.reference(stg, ax, sg, opts, ts_eval=ts_before[k] + off, cache=cache, ax_fn=ax0)
            delta = f.data - data_before[k]
            bad = (np.abs(delta - exp) > tol + 1e-12 * np.max(np.abs(f.data))) & ~excl
            if np.any(bad):
                i, j = map(int, np.argwhere(bad)[0])
                fl = '+'.join(flags) or 'plain'
                obs.fail(f'value:{fl}:{"first" if k == 0 else "later"}_frame',
                         f'frame {k} (offset {off!r}) pixel ({i},{j}) got {delta[i, j]!r} expected {exp[i, j]!r}; '
                         f'path={sg["path"]["kind"]} t={sg["t"]["kind"]} f={sg["f"]["kind"]}')
                break
        amp = S.amplitude_bound(ax0, sg)
        if k == m - 1 and r == 0:
            varying = (sg['path']['kind'] not in ('float', 'int') and (sg['path'].get('drift', 1) != 0 or sg['path']['kind'] != 'constant')) \
                or sg['t']['kind'] in ('sine', 'pgauss', 'custom')
            visible = any(np.any(np.abs(f.data) > 1e-12 * amp) for f in members)
            obs.nontrivial = m >= 2 and members[-1].t_start != t_first and varying and visible

    # ---- mixed histories: the same frames injected directly, then through another cadence ----------
    if case.get('mixed') and not obs.violations:
        obs.cls('mixed_history')
        phases = [('direct', [members[-1]], None)]
        if m >= 3:
            phases.append(('subcadence', members[1:], stg.Cadence(members[1:])))
        phases.append(('whole_again', members, target))
        if m >= 2 and not case.get('consolidated'):
            phases.append(('replaced', None, target))
        for pname, mem, tgt in phases:
            if pname == 'replaced':
                # the last member is replaced in place (cad[i] = frame) by an observation taken later; offsets follow the members
                ok, new = core.call(obs, 'copy', members[-1].copy)
                if not ok:
                    break
                new.t_start = members[-1].t_start + 123.5 * new.dt * new.tchans
                ok, _ = core.call(obs, 'cadence.__setitem__', tgt.__setitem__, m - 1, new)
                if not ok:
                    break
                mem = members = members[:-1] + [new]
                obs.cls('member_replaced_in_place')
            path = S.stg_path(stg, ax0, sg['path'], smear)
            tprof = S.stg_t(stg, ax0, sg['t'])
            fprof = S.stg_f(stg, ax0, sg['f'])
            bp = S.stg_bp(stg, ax0, sg['bp'])
            data_before = [f.data.copy() for f in mem]
            tsb = [np.array(f.ts, copy=True) for f in mem]
            if tgt is None:
                ok, _ = core.call(obs, 'frame.add_signal[after cadence]', mem[0].add_signal, path, tprof, fprof, bp, *pos, **kw)
            else:
                ok, _ = core.call(obs, f'cadence.add_signal[{pname}]', tgt.add_signal, path, tprof, fprof, bp, *pos, **kw)
            if not ok:
                break
            cache = {}
            t_first = mem[0].t_start
            for k2, f in enumerate(mem):
                ax = S.Axes(f.fs, f.ts, f.df, f.dt)
                off = 0.0 if tgt is None else f.t_start - t_first
                exp, tol, excl = S.reference(stg, ax, sg, opts, ts_eval=tsb[k2] + off, cache=cache, ax_fn=ax0)
                delta = f.data - data_before[k2]
                bad = (np.abs(delta - exp) > tol + 1e-12 * np.max(np.abs(f.data))) & ~excl
                if np.any(bad):
                    i, j = map(int, np.argwhere(bad)[0])
                    obs.fail(f'value:mixed_history:{pname}:{"+".join(flags) or "plain"}',
                             f'{pname} injection after earlier cadence injections: frame {k2} pixel ({i},{j}) got {delta[i, j]!r} expected {exp[i, j]!r}')
                    break
                if not np.array_equal(np.asarray(f.ts), tsb[k2]):
                    obs.fail(f'ts_not_restored:mixed:{pname}', f'frame {k2}')
            if obs.violations:
                break
    # ---- consolidate -----------------------------------------------------------------------
    ok, cf = core.call(obs, 'consolidate', target.consolidate)
    if ok and cf is not None:
        want = np.concatenate([f.data for f in members], axis=0)
        if cf.data.shape != want.shape or not np.array_equal(cf.data, want):
            obs.fail('consolidate_data', f'{cf.data.shape} vs {want.shape}')
        wt = np.concatenate([ts_before[k] + f.t_start for k, f in enumerate(members)])
        if np.asarray(cf.ts).shape != wt.shape or not np.array_equal(np.asarray(cf.ts), wt):
            obs.fail('consolidate_ts', '')
        if not np.array_equal(np.asarray(cf.fs), np.asarray(members[0].fs)):
            obs.fail('consolidate_fs', '')
    ts_intact('after_consolidate')
    return obs
