"""C09 - quantisers: monotone affine maps into the signed b-bit range, stated refresh schedule."""
import math
import warnings

import numpy as np
from hypothesis import strategies as st

from vp import core, gen

PROP_ID = 'C09'
LEVEL = 'exploration'
BUDGET = {'quick': 8000, 'thorough': 200000}
RULE = ('Model-based histories: Hypothesis draws a quantiser (real/complex object or free function; '
        'bits 2..8, target mean, FWHM, refresh period in {-3,-1,0,1,2,3,5}, stats_calc_num_samples) and '
        '1..12 calls, each with an input array (explicit float list, or a seeded numpy draw from: gaussian, '
        'uniform, constant exactly/inexactly representable, two-valued, huge<=1e150, tiny>=1e-150, shifted), '
        'an optional custom deviation (scalar, pair, 0-d array) and optional cache reset. A reference model '
        'tracks the refresh counter and cached (mean,std) and predicts every output sample exactly (values '
        'within 1e-9 of a rounding tie excluded and counted). Non-trivial: an input with both clipped and '
        'unclipped samples, or a history with >=1 refreshing and >=1 non-refreshing call after the first.')
ASSUMPTIONS = ['mean/std estimator is numpy mean/std of the leading min(N,len) samples',
               'rounding ties (pre-round value within 1e-9 of x.5) are excluded',
               'inputs whose squares overflow a double are outside the domain']
REQUIRED_CLASSES = ['kind=real', 'kind=complex', 'kind=free_real', 'kind=free_complex', 'period>1', 'period<=0',
                    'dist=const_inexact', 'dist=const_exact', 'dist=const_huge', 'dist=huge', 'dist=tiny', 'dist=lead_const', 'custom=scalar', 'custom=pair', 'dist=int_const', 'dist=int_var', 'period>256', 'period_numpy_int',
                    'mixed_clip', 'refresh_and_hold', 'entry=digitize', 'entry=digitize_pos', 'entry=quantize_pos']

FWHM_M = 2 * math.sqrt(2 * math.log(2))

arr_spec = st.one_of(
    st.fixed_dictionaries({'dist': st.just('explicit'),
                           'values': st.lists(gen.finite(-1e6, 1e6), min_size=1, max_size=8)}),
    st.fixed_dictionaries({'dist': st.sampled_from(['gauss', 'uniform', 'two', 'shift', 'pm']),
                           'n': st.integers(1, 400), 'seed': st.integers(0, 2 ** 20),
                           'a': gen.finite(-50, 50), 'b': gen.finite(1e-3, 1e3)}),
    st.fixed_dictionaries({'dist': st.just('const_inexact'), 'n': st.integers(1, 60),
                           'a': st.sampled_from([0.1, 0.3, -0.7, 1e-3, 123.456, 1.1e9, -2.2e-5, 1 / 3])}),
    # constant (inexact) leading window followed by varying samples: statistics must come from
    # the leading min(N, len) samples only
    st.fixed_dictionaries({'dist': st.just('lead_const'), 'n': st.integers(1, 60), 'm': st.integers(1, 40),
                           'seed': st.integers(0, 2 ** 20),
                           'a': st.sampled_from([0.1, 0.3, -0.7, 1.1, 7.7, 123.456])}),
    # very large constants: the mean of n equal samples is not exact and the squared residual overflows
    st.fixed_dictionaries({'dist': st.just('const_huge'), 'n': st.integers(1, 60), 'e': st.one_of(st.integers(150, 305), st.just(307)),
                           'sign': st.sampled_from([1, -1]), 'm': gen.finite(1.0, 9.99)}),
    st.fixed_dictionaries({'dist': st.just('const_exact'), 'n': st.integers(1, 60),
                           'a': st.sampled_from([0.0, 1.0, -2.5, 1024.0, 0.125])}),
    # integer-typed voltages (digitised data are integers): constant and varying
    st.fixed_dictionaries({'dist': st.just('int_const'), 'n': st.integers(1, 60), 'a': st.integers(-100, 100),
                           'dtype': st.sampled_from(['int64', 'int32', 'int8', 'uint8'])}),
    st.fixed_dictionaries({'dist': st.just('int_var'), 'n': st.integers(2, 200), 'seed': st.integers(0, 2 ** 20),
                           'dtype': st.sampled_from(['int64', 'int32', 'int8', 'uint8'])}),
    st.fixed_dictionaries({'dist': st.just('huge'), 'n': st.integers(2, 100), 'seed': st.integers(0, 2 ** 20),
                           'e': st.integers(20, 150)}),
    st.fixed_dictionaries({'dist': st.just('tiny'), 'n': st.integers(2, 100), 'seed': st.integers(0, 2 ** 20),
                           'e': st.integers(20, 150)}),
)

custom = st.one_of(st.none(), st.none(),
                   st.fixed_dictionaries({'form': st.just('scalar'), 'v': gen.finite(1e-3, 1e3)}),
                   st.fixed_dictionaries({'form': st.just('pair'), 'v': st.tuples(gen.finite(1e-3, 1e3), gen.finite(1e-3, 1e3))}),
                   st.fixed_dictionaries({'form': st.just('0d'), 'v': gen.finite(1e-3, 1e3)}),
                   # a very small supplied deviation: every non-zero residual saturates, a zero residual must not
                   st.fixed_dictionaries({'form': st.just('scalar'), 'v': gen.finite(1e-18, 1e-12)}))

call_spec = st.fixed_dictionaries({'re': arr_spec, 'im': arr_spec, 'custom': custom,
                                   'reset': st.sampled_from([False, False, False, False, True]),
                                   # public entry point / call style of the real quantiser (digitize is its documented wrapper)
                                   'entry': st.sampled_from(['quantize', 'quantize', 'digitize', 'digitize_pos', 'quantize_pos'])})


def strategy(tier):
    return st.fixed_dictionaries({
        'kind': st.sampled_from(['real', 'real', 'complex', 'complex', 'free_real', 'free_complex']),
        'bits': st.integers(2, 8),
        # target means bounded away from rounding ties
        'tmean': st.one_of(st.just(0.0), st.integers(-3, 3).map(float),
                           st.tuples(st.integers(-3, 2), gen.finite(0.01, 0.49)).map(lambda t: t[0] + t[1]),
                           st.tuples(st.integers(-3, 2), gen.finite(0.51, 0.99)).map(lambda t: t[0] + t[1])),
        'fwhm': st.one_of(st.just(32.0), gen.finite(0.5, 64.0)),
        'period': st.one_of(st.sampled_from([-3, -1, 0, 1, 1, 2, 3, 5]), st.sampled_from([-3, -1, 0, 1, 1, 2, 3, 5]), st.sampled_from([-3, -1, 0, 1, 2, 3, 5, 257, 300])),
        'period_type': st.sampled_from(['int', 'int', 'int64']),
        'N': st.one_of(st.integers(1, 60), st.integers(1, 500), st.just(10000)),
        'calls': st.lists(call_spec, min_size=1, max_size=12),
    })


def make_array(spec):
    d = spec['dist']
    if d == 'explicit':
        return np.array(spec['values'], dtype=float)
    if d in ('const_inexact', 'const_exact'):
        return np.full(spec['n'], spec['a'], dtype=float)
    if d == 'const_huge':
        # at most 4e307, so that the difference of any two samples (and of a sample and a cached mean) stays finite
        return np.full(spec['n'], spec['sign'] * min(spec['m'] * 10.0 ** spec['e'], 4e307), dtype=float)
    if d == 'int_const':
        a = spec['a'] % 100 if spec['dtype'] == 'uint8' else spec['a']
        return np.full(spec['n'], a, dtype=spec['dtype'])
    if d == 'int_var':
        lo, hi = (0, 200) if spec['dtype'] == 'uint8' else (-100, 100)
        return np.random.RandomState(spec['seed']).randint(lo, hi, size=spec['n']).astype(spec['dtype'])
    rs = np.random.RandomState(spec['seed'])
    n = spec['n']
    if d == 'lead_const':
        return np.concatenate([np.full(n, spec['a'], dtype=float), spec['a'] + rs.standard_normal(spec['m'])])
    if d == 'gauss':
        return spec['a'] + spec['b'] * rs.standard_normal(n)
    if d == 'uniform':
        return spec['a'] + spec['b'] * rs.uniform(-1, 1, n)
    if d == 'two':
        return np.where(rs.uniform(size=n) < 0.5, spec['a'], spec['a'] + spec['b'])
    if d == 'pm':
        # equal magnitudes, both signs: varies although |x| is constant
        return np.where(rs.uniform(size=n) < 0.5, -spec['b'], spec['b'])
    if d == 'shift':
        return spec['a'] * 1e6 + spec['b'] * rs.standard_normal(n)
    if d == 'huge':
        return 10.0 ** spec['e'] * rs.standard_normal(n)
    if d == 'tiny':
        return 10.0 ** (-spec['e']) * rs.standard_normal(n)
    raise ValueError(d)


def is_constant(x):
    return bool(np.all(x == x[0]))


def ref_stats(x, N):
    """Mean / deviation of the leading min(N, len) samples; exactly 0 deviation for constant input."""
    lead = x[:min(N, len(x))]
    # a constant block has that constant as its mean (summing equal samples may round or overflow), and zero deviation
    m = float(lead[0]) if is_constant(lead) else float(np.mean(lead))
    s = 0.0 if is_constant(lead) else float(np.std(lead))
    return m, s


class RefReal(object):
    def __init__(self, tmean, fwhm, bits, period, N):
        self.tmean, self.tstd, self.bits = tmean, fwhm / FWHM_M, bits
        self.period, self.N = period, N
        self.reset()

    def reset(self):
        self.count = 0
        self.cache = None

    def refreshes_now(self):
        return self.count == 0

    def step(self, x, custom_std):
        refreshed = self.refreshes_now()
        if refreshed:
            self.cache = ref_stats(x, self.N)
        mean, std = self.cache
        if custom_std is not None:
            std = custom_std
        self.count += 1
        if self.count == self.period:
            self.count = 0
        return predict(x, self.tmean, self.tstd, self.bits, mean, std) + (refreshed,)


def predict(x, tmean, tstd, bits, mean, std):
    x = np.asarray(x, dtype=float)
    """Returns (expected ints, mask of samples to compare, pre-round values)."""
    lo, hi = -2 ** (bits - 1), 2 ** (bits - 1) - 1
    if std == 0:
        y = np.full(len(x), float(tmean))
    else:
        y = (tstd / std) * (x - mean) + tmean
    frac = np.abs(y - np.floor(y) - 0.5)
    tie = (frac < 1e-9 * np.maximum(1.0, np.abs(y))) & (y > lo - 1) & (y < hi + 1)
    exp = np.clip(np.rint(y), lo, hi)
    return exp, ~tie, y


def check_out(obs, tag, q, exp, mask, y, x, bits):
    lo, hi = -2 ** (bits - 1), 2 ** (bits - 1) - 1
    q = np.asarray(q)
    if q.shape != exp.shape:
        obs.fail(f'shape:{tag}', f'{q.shape} vs {exp.shape}')
        return
    if not np.all(np.isfinite(q.astype(float))):
        obs.fail(f'nonfinite:{tag}', '')
        return
    if not np.all(q == np.rint(q)):
        obs.fail(f'not_integral:{tag}', '')
    if q.min() < lo or q.max() > hi:
        obs.fail(f'range:{tag}', f'[{q.min()},{q.max()}] not in [{lo},{hi}]')
    x = np.asarray(x, dtype=float)
    order = np.argsort(x, kind='stable')
    if np.any(np.diff(q[order].astype(float)) < 0):
        obs.fail(f'monotone:{tag}', '')
    obs.count('excluded_ties', int(np.sum(~mask)))
    bad = np.flatnonzero((q != exp) & mask)
    if len(bad):
        i = int(bad[0])
        obs.fail(f'value:{tag}', f'x={x[i]!r} got {q[i]} expected {exp[i]} (pre-round {y[i]!r}); {len(bad)} of {len(x)} differ')
    inner = (y > lo + 1) & (y < hi - 1)
    if np.any(inner) and np.any(~inner):
        obs.cls('mixed_clip')
        obs.nontrivial = True


def run_case(case, ctx):
    core.import_setigen()
    from setigen.voltage import quantization as Q
    obs = core.Obs()
    kind, bits, tmean, fwhm = case['kind'], case['bits'], case['tmean'], case['fwhm']
    period, N = case['period'], case['N']
    period_arg = np.int64(period) if case.get('period_type') == 'int64' else period
    if case.get('period_type') == 'int64':
        obs.cls('period_numpy_int')
    obs.cls('kind=' + kind, f'bits={bits}',
            'period>1' if period > 1 else ('period=1' if period == 1 else 'period<=0'))
    tstd = fwhm / FWHM_M
    refreshed_after_first = held_after_first = False

    with warnings.catch_warnings(record=True) as wlist:
        warnings.simplefilter('always')
        if kind in ('real', 'complex'):
            if kind == 'real':
                ok, qz = core.call(obs, 'construct', Q.RealQuantizer, target_mean=tmean, target_fwhm=fwhm,
                                   num_bits=bits, stats_calc_period=period_arg, stats_calc_num_samples=N)
                refs = [RefReal(tmean, fwhm, bits, period, N)]
            else:
                ok, qz = core.call(obs, 'construct', Q.ComplexQuantizer, target_mean=tmean, target_fwhm=fwhm,
                                   num_bits=bits, stats_calc_period=period_arg, stats_calc_num_samples=N)
                refs = [RefReal(tmean, fwhm, bits, period, N), RefReal(tmean, fwhm, bits, period, N)]
            if not ok:
                return obs
            calls = list(case['calls'])
            if period > 100:
                obs.cls('period>256')
                # the refresh on call p must happen: cycle the drawn calls until two periods have passed
                calls = [dict(calls[i % len(calls)], reset=False) for i in range(2 * period + 3)]
            for k, c in enumerate(calls):
                if c['reset']:
                    ok, _ = core.call(obs, 'reset', qz._reset_cache)
                    for r in refs:
                        r.reset()
                    obs.cls('with_reset')
                xr = make_array(c['re'])
                obs.cls('dist=' + c['re']['dist'])
                cu = c['custom']
                cs = [None, None]
                arg = None
                if cu is not None:
                    obs.cls('custom=' + cu['form'])
                    if cu['form'] == 'scalar':
                        cs, arg = [cu['v'], cu['v']], cu['v']
                    elif cu['form'] == '0d':
                        cs, arg = [cu['v'], cu['v']], np.array(cu['v'])
                    else:
                        cs, arg = list(cu['v']), list(cu['v'])
                        if kind == 'real':
                            cs, arg = [cu['v'][0]] * 2, cu['v'][0]
                if kind == 'real':
                    exp, mask, y, refr = refs[0].step(xr, cs[0])
                    entry = c.get('entry', 'quantize')
                    obs.cls('entry=' + entry)
                    if entry == 'digitize':
                        ok, q = core.call(obs, 'digitize', qz.digitize, xr.copy(), custom_std=arg)
                    elif entry == 'digitize_pos':
                        ok, q = core.call(obs, 'digitize', qz.digitize, xr.copy(), arg)
                    elif entry == 'quantize_pos':
                        ok, q = core.call(obs, 'quantize', qz.quantize, xr.copy(), arg)
                    else:
                        ok, q = core.call(obs, 'quantize', qz.quantize, xr.copy(), custom_std=arg)
                    if ok:
                        check_out(obs, 'real', q, exp, mask, y, xr, bits)
                else:
                    xi = make_array(c['im'])
                    n = min(len(xr), len(xi))
                    xr, xi = xr[:n], xi[:n]
                    obs.cls('dist=' + c['im']['dist'])
                    er, mr, yr, refr = refs[0].step(xr, cs[0])
                    ei, mi, yi, _ = refs[1].step(xi, cs[1])
                    ok, q = core.call(obs, 'quantize', qz.quantize, xr + 1j * xi, custom_stds=arg)
                    if ok:
                        q = np.asarray(q)
                        check_out(obs, 'complex_re', q.real, er, mr, yr, xr, bits)
                        check_out(obs, 'complex_im', q.imag, ei, mi, yi, xi, bits)
                if k > 0 and not c['reset']:
                    if refr:
                        refreshed_after_first = True
                    else:
                        held_after_first = True
        elif kind == 'free_real':
            for c in case['calls'][:3]:
                x = make_array(c['re'])
                obs.cls('dist=' + c['re']['dist'])
                if c['custom'] is not None and c['custom']['form'] == 'scalar':
                    # statistics supplied by the caller
                    m, s = float(np.mean(x)), c['custom']['v']
                    exp, mask, y = predict(x, tmean, tstd, bits, m, s)
                    ok, q = core.call(obs, 'quantize_real', Q.quantize_real, x.copy(), target_mean=tmean,
                                      target_std=tstd, num_bits=bits, data_mean=m, data_std=s,
                                      stats_calc_num_samples=N)
                    obs.cls('custom=scalar')
                else:
                    m, s = ref_stats(x, N)
                    exp, mask, y = predict(x, tmean, tstd, bits, m, s)
                    ok, q = core.call(obs, 'quantize_real', Q.quantize_real, x.copy(), target_mean=tmean,
                                      target_std=tstd, num_bits=bits, stats_calc_num_samples=N)
                if ok:
                    check_out(obs, 'free_real', q, exp, mask, y, x, bits)
        else:
            for c in case['calls'][:3]:
                xr, xi = make_array(c['re']), make_array(c['im'])
                n = min(len(xr), len(xi))
                xr, xi = xr[:n], xi[:n]
                obs.cls('dist=' + c['re']['dist'], 'dist=' + c['im']['dist'])
                er, mr, yr = predict(xr, tmean, tstd, bits, *ref_stats(xr, N))
                ei, mi, yi = predict(xi, tmean, tstd, bits, *ref_stats(xi, N))
                ok, q = core.call(obs, 'quantize_complex', Q.quantize_complex, xr + 1j * xi, target_mean=tmean,
                                  target_std=tstd, num_bits=bits, stats_calc_num_samples=N)
                if ok:
                    q = np.asarray(q)
                    check_out(obs, 'free_complex_re', q.real, er, mr, yr, xr, bits)
                    check_out(obs, 'free_complex_im', q.imag, ei, mi, yi, xi, bits)
    for w in wlist:
        if issubclass(w.category, RuntimeWarning) and core._in_dir(w.filename, core.REPO):
            if str(w.message).startswith('overflow encountered in') and 'cast' not in str(w.message):
                # a product beyond 1e308 becomes +-inf and is clipped to the end of the range, which is the value the
                # statement's formula gives (the outputs are compared above); only NaN / a wrapped cast is a failure
                obs.count('float_overflow_then_clipped')
                continue
            obs.fail('runtime_warning', f'{w.category.__name__}: {w.message} @ {w.filename}:{w.lineno}'[:300])
            break
    if refreshed_after_first and held_after_first:
        obs.cls('refresh_and_hold')
        obs.nontrivial = True
    return obs


# --------------------------------------------------------------------------------------------------
# byte-level decoder for the coverage-guided stage (vp/fuzz.py): the same case domain as strategy()
# --------------------------------------------------------------------------------------------------
def decode_bytes(fdp):
    def rng(lo, hi):
        return fdp.ConsumeFloatInRange(lo, hi)

    def pick(xs):
        return xs[fdp.ConsumeIntInRange(0, len(xs) - 1)]

    def arr():
        d = pick(['explicit', 'gauss', 'uniform', 'two', 'shift', 'pm', 'const_inexact', 'lead_const', 'const_huge',
                  'const_exact', 'int_const', 'int_var', 'huge', 'tiny'])
        seed = fdp.ConsumeIntInRange(0, 2 ** 20)
        if d == 'explicit':
            return {'dist': d, 'values': [rng(-1e6, 1e6) for _ in range(fdp.ConsumeIntInRange(1, 8))]}
        if d in ('gauss', 'uniform', 'two', 'shift', 'pm'):
            return {'dist': d, 'n': fdp.ConsumeIntInRange(1, 400), 'seed': seed, 'a': rng(-50, 50), 'b': rng(1e-3, 1e3)}
        if d == 'const_inexact':
            return {'dist': d, 'n': fdp.ConsumeIntInRange(1, 60), 'a': pick([0.1, 0.3, -0.7, 1e-3, 123.456, 1.1e9, -2.2e-5, 1 / 3])}
        if d == 'lead_const':
            return {'dist': d, 'n': fdp.ConsumeIntInRange(1, 60), 'm': fdp.ConsumeIntInRange(1, 40), 'seed': seed,
                    'a': pick([0.1, 0.3, -0.7, 1.1, 7.7, 123.456])}
        if d == 'const_huge':
            return {'dist': d, 'n': fdp.ConsumeIntInRange(1, 60), 'e': fdp.ConsumeIntInRange(150, 305), 'sign': pick([1, -1]), 'm': rng(1.0, 9.99)}
        if d == 'const_exact':
            return {'dist': d, 'n': fdp.ConsumeIntInRange(1, 60), 'a': pick([0.0, 1.0, -2.5, 1024.0, 0.125])}
        if d == 'int_const':
            return {'dist': d, 'n': fdp.ConsumeIntInRange(1, 60), 'a': fdp.ConsumeIntInRange(-100, 100), 'dtype': pick(['int64', 'int32', 'int8', 'uint8'])}
        if d == 'int_var':
            return {'dist': d, 'n': fdp.ConsumeIntInRange(2, 200), 'seed': seed, 'dtype': pick(['int64', 'int32', 'int8', 'uint8'])}
        return {'dist': d, 'n': fdp.ConsumeIntInRange(2, 100), 'seed': seed, 'e': fdp.ConsumeIntInRange(20, 150)}

    def custom_():
        k = fdp.ConsumeIntInRange(0, 4)
        if k <= 1:
            return None
        if k == 2:
            return {'form': 'scalar', 'v': rng(1e-3, 1e3)}
        if k == 3:
            return {'form': 'pair', 'v': [rng(1e-3, 1e3), rng(1e-3, 1e3)]}
        return {'form': '0d', 'v': rng(1e-3, 1e3)}
    t = fdp.ConsumeIntInRange(0, 3)
    if t == 0:
        tmean = 0.0
    elif t == 1:
        tmean = float(fdp.ConsumeIntInRange(-3, 3))
    elif t == 2:
        tmean = fdp.ConsumeIntInRange(-3, 2) + rng(0.01, 0.49)
    else:
        tmean = fdp.ConsumeIntInRange(-3, 2) + rng(0.51, 0.99)
    calls = [{'re': arr(), 'im': arr(), 'custom': custom_(), 'reset': fdp.ConsumeIntInRange(0, 4) == 4,
              'entry': pick(['quantize', 'quantize', 'digitize', 'digitize_pos', 'quantize_pos'])}
             for _ in range(fdp.ConsumeIntInRange(1, 12))]
    return {'kind': pick(['real', 'complex', 'free_real', 'free_complex']), 'bits': fdp.ConsumeIntInRange(2, 8), 'tmean': tmean,
            'fwhm': 32.0 if fdp.ConsumeBool() else rng(0.5, 64.0), 'period': pick([-3, -1, 0, 1, 2, 3, 5, 257, 300]),
            'period_type': pick(['int', 'int', 'int64']), 'N': pick([fdp.ConsumeIntInRange(1, 60), fdp.ConsumeIntInRange(1, 500), 10000]),
            'calls': calls}


FUZZ_RUNS = 3000       # executions per libFuzzer process in the thorough tier
