"""C10 - antenna streams deliver one continuous timeline however requests are chunked."""
import math
from fractions import Fraction

import numpy as np
from hypothesis import strategies as st

from vp import core, gen

PROP_ID = 'C10'
LEVEL = 'exploration'
BUDGET = {'quick': 9000, 'thorough': 80000}
RULE = ('Model-based histories on a DataStream or an Antenna (1 or 2 polarisations): Hypothesis draws sample rate, '
        'fch1, orientation, start time, seed, 0..2 noise sources, 0..2 chirps (offset up to Nyquist, drift of '
        'either sign, phase), 0..2 custom sources (real / complex closed forms) per stream and a list of 1..12 ops '
        '(get(n), set_time, add_time, reset_start, update_noise). A rational-time clock model predicts every '
        'request\'s time axis; deterministic content is compared with its closed form evaluated on the delivered '
        'time axis; the noise of all requests (incl. those consumed by update_noise) must equal, bit for bit, a '
        'same-seed twin\'s single request of the total length. Non-trivial: >=2 requests of different sizes with '
        'at least one source.')
ASSUMPTIONS = ['clock tolerance (ops+4) ulp of the largest time; content tolerance level*(32 ulp(|phase|max)+1e-12)',
               'descending bands negate the chirp term 2 pi((f-fch1)t + drift t^2/2), then add the user phase',
               'noise identity is a metamorphic relation against the same code under a different chunking']
REQUIRED_CLASSES = ['kind=stream', 'kind=antenna1', 'kind=antenna2', 'noise=1', 'noise=2', 'chirp', 'custom_complex',
                    'op=set_time', 'op=add_time', 'op=update_noise', 'op=reset_start', 'requests>=2', 'desc', 'asc', 'equal_size_after_get', 'equal_size_after_update_noise', 'equal_size_after_clock_change', 'custom_single_precision', 'asc_form=np.bool_', 'asc_form=int']

RATES = [1e6, 3e9, 2.048e9, 187.5e6, 3.3e9]


def source_list():
    noise = st.fixed_dictionaries({'kind': st.just('noise'), 'mean': gen.finite(-2, 2), 'std': gen.finite(0.1, 5)})
    chirp = st.fixed_dictionaries({'kind': st.just('chirp'), 'frac': gen.finite(0.001, 0.999),
                                   'drift': st.one_of(st.just(0.0), gen.finite(-1e9, 1e9), gen.finite(-10, 10)),
                                   'level': gen.finite(0.01, 10), 'phase': st.one_of(st.just(0.0), gen.finite(-3.2, 3.2))})
    custom = st.fixed_dictionaries({'kind': st.just('custom'), 'complex': st.booleans(),
                                    'single': st.sampled_from([False, False, True]),     # complex64 / float32 samples (IQ data)
                                    'a': gen.finite(0.01, 5), 'frac': gen.finite(0.001, 0.4)})
    return st.lists(st.one_of(noise, noise, chirp, chirp, custom), min_size=0, max_size=4)


_sizes = st.one_of(st.sampled_from([16, 64, 100]), st.sampled_from([16, 64, 100]), st.integers(1, 120))
op = st.one_of(
    st.fixed_dictionaries({'op': st.just('get'), 'n': _sizes}),
    st.fixed_dictionaries({'op': st.just('update_noise'), 'n': st.sampled_from([16, 64, 100])}),
    st.fixed_dictionaries({'op': st.just('get'), 'n': st.integers(1, 120)}),
    st.fixed_dictionaries({'op': st.just('get'), 'n': st.integers(1, 120)}),
    st.fixed_dictionaries({'op': st.just('get'), 'n': st.one_of(st.integers(1, 40), st.integers(1, 400))}),
    st.fixed_dictionaries({'op': st.just('get'), 'n': st.one_of(st.integers(1, 40), st.integers(1, 400))}),
    st.fixed_dictionaries({'op': st.just('set_time'), 't': st.sampled_from([0.0, 1e-3, 17.25, 1e4, 0.1])}),
    st.fixed_dictionaries({'op': st.just('add_time'), 't': st.sampled_from([0.0, 1e-6, 0.5, 3.0, 1e-9])}),
    st.fixed_dictionaries({'op': st.just('reset_start')}),
    st.fixed_dictionaries({'op': st.just('update_noise'), 'n': st.integers(1, 200)}),
)


def strategy(tier):
    return st.fixed_dictionaries({
        'kind': st.sampled_from(['stream', 'antenna1', 'antenna2']),
        'sr': st.sampled_from(RATES), 'fch1': st.sampled_from([0.0, 6e9, 1.42e9, 8.4e9 + 17.0]),
        'ascending': st.booleans(), 'asc_form': st.sampled_from(['bool', 'bool', 'np.bool_', 'int']), 't0': st.sampled_from([0.0, 0.0, 1e-3, 17.25, 1e4]),
        'seed': st.integers(0, 2 ** 31 - 1),
        'src_x': source_list(), 'src_y': source_list(),
        'ops': st.lists(op, min_size=1, max_size=12),
    })


def add_sources(stream, srcs, sr, fch1, ascending):
    """Attach sources to a stream; returns closed-form evaluators [(fn(ts)->array, level, kind)]."""
    evals = []
    sign = 1.0 if ascending else -1.0
    for s in srcs:
        if s['kind'] == 'noise':
            stream.add_noise(v_mean=s['mean'], v_std=s['std'])
        elif s['kind'] == 'chirp':
            off = sign * s['frac'] * sr / 2          # inside the Nyquist band on the proper side of fch1
            f_start = fch1 + off
            stream.add_constant_signal(f_start=f_start, drift_rate=s['drift'], level=s['level'], phase=s['phase'])

            def ev(ts, f_start=f_start, s=s):
                ph = 2 * np.pi * ((f_start - fch1) * ts + 0.5 * s['drift'] * ts ** 2)
                if not ascending:
                    ph = -ph
                return s['level'] * np.cos(ph + s['phase']), np.abs(ph).max() if len(ts) else 0.0
            evals.append((ev, s['level']))
        else:
            f0 = s['frac'] * sr
            if s['complex']:
                fn = lambda ts, a=s['a'], f0=f0: a * np.exp(2j * np.pi * f0 * ts)
            else:
                fn = lambda ts, a=s['a'], f0=f0: a * np.sin(2 * np.pi * f0 * ts)
            if s.get('single'):
                base = fn
                fn = (lambda ts, base=base: base(ts).astype(np.complex64)) if s['complex'] else (lambda ts, base=base: base(ts).astype(np.float32))
            stream.add_signal(fn)
            evals.append(((lambda ts, fn=fn: (fn(ts), 0.0)), 0.0))
    return evals


def run_case(case, ctx):
    core.import_setigen()
    from setigen.voltage import data_stream as DS, antenna as AN
    obs = core.Obs()
    kind, sr, fch1, asc, t0, seed = case['kind'], case['sr'], case['fch1'], case['ascending'], case['t0'], case['seed']
    obs.cls('kind=' + kind, 'asc' if asc else 'desc')
    npol = {'stream': 1, 'antenna1': 1, 'antenna2': 2}[kind]
    src = [case['src_x'], case['src_y']][:npol]

    # the orientation flag as a caller produces it: a Python bool, the numpy.bool_ of a comparison (foff > 0), or 0/1
    asc_arg = {'bool': bool(asc), 'np.bool_': np.bool_(asc), 'int': int(asc)}[case.get('asc_form', 'bool')]
    obs.cls('asc_form=' + case.get('asc_form', 'bool'))

    def build():
        if kind == 'stream':
            top = DS.DataStream(sample_rate=sr, fch1=fch1, ascending=asc_arg, t_start=t0, seed=seed)
            streams = [top]
        else:
            top = AN.Antenna(sample_rate=sr, fch1=fch1, ascending=asc_arg, num_pols=npol, t_start=t0, seed=seed)
            streams = [top.x] + ([top.y] if npol == 2 else [])
        return top, streams

    ok, built = core.call(obs, 'construct', build)
    if not ok:
        return obs
    top, streams = built
    evals = []
    for p in range(npol):
        ok, ev = core.call(obs, 'add_sources', add_sources, streams[p], src[p], sr, fch1, asc)
        if not ok:
            return obs
        evals.append(ev)
    # twin with the noise sources only: one request of the total length is the noise reference
    twin_top, twin_streams = build()
    for p in range(npol):
        for s in src[p]:
            if s['kind'] == 'noise':
                twin_streams[p].add_noise(v_mean=s['mean'], v_std=s['std'])
    total = sum((o['n'] for o in case['ops'] if o['op'] in ('get', 'update_noise')), 0)
    n_noise = [sum(1 for s in src[p] if s['kind'] == 'noise') for p in range(npol)]
    noise_ref = []
    for p in range(npol):
        if n_noise[p] and total:
            ok, v = core.call(obs, 'twin_get', twin_streams[p].get_samples, total)
            if not ok:
                return obs
            noise_ref.append(np.array(v, copy=True))
        else:
            noise_ref.append(np.zeros(total))
        obs.cls(f'noise={min(n_noise[p], 2)}')
    if any(s['kind'] == 'chirp' for p in range(npol) for s in src[p]):
        obs.cls('chirp')
    has_complex = [any(s['kind'] == 'custom' and s['complex'] for s in src[p]) for p in range(npol)]
    if any(has_complex):
        obs.cls('custom_complex')
    if any(s['kind'] == 'custom' and s.get('single') for p in range(npol) for s in src[p]):
        obs.cls('custom_single_precision')

    clock = Fraction(t0)
    dt_q = 1 / Fraction(sr)
    consumed = 0
    nops = 0
    last = {'n': None, 'op': None}
    sizes = []
    tmax = abs(t0)

    def check_clock(tag):
        tol = (nops + 4) * gen.ulp(max(tmax, float(abs(clock)), 1e-300))
        vals = [('top', top.t_start)] + [(f'stream{p}', streams[p].t_start) for p in range(npol)]
        for name, v in vals:
            if abs(Fraction(v) - clock) > tol:
                obs.fail(f'clock:{tag}:{name if name == "top" else "stream"}',
                         f'{name} t_start {v!r} expected {float(clock)!r} (tol {tol:.3g})')
                return False
        return True

    for o in case['ops']:
        name = o['op']
        if name == 'reset_start' and kind == 'stream':
            continue           # data streams have no reset_start
        obs.cls('op=' + name)
        nops += 1
        if name == 'get':
            n = o['n']
            ok, v = core.call(obs, 'get_samples', top.get_samples, n)
            if not ok:
                return obs
            v = np.asarray(v)
            if kind == 'stream':
                v = v[None, None, :]
            if v.shape != (1, npol, n):
                obs.fail('shape', f'{v.shape} vs {(1, npol, n)}')
                return obs
            exact_ts = [clock + k * dt_q for k in (0, n // 2, n - 1)]
            for p in range(npol):
                ts = np.asarray(streams[p].ts, dtype=float)
                if ts.shape != (n,):
                    obs.fail('ts_length', f'{ts.shape}')
                    return obs
                tol = (nops + 4) * gen.ulp(max(tmax, float(abs(clock)) + n / sr, 1e-300))
                for k, e in zip((0, n // 2, n - 1), exact_ts):
                    if abs(Fraction(float(ts[k])) - e) > tol:
                        obs.fail('time_axis', f'sample {k} of {n}: {ts[k]!r} expected {float(e)!r} tol {tol:.3g}')
                        break
                if n > 1 and not np.all(np.diff(ts) > 0) and sr * gen.ulp(ts[-1]) < 0.25:
                    obs.fail('time_axis_not_increasing', '')
                # content: noise slice (bit-exact) + deterministic sources on the delivered axis
                exp = np.zeros(n, dtype=complex if has_complex[p] else float)
                exp = exp + noise_ref[p][consumed:consumed + n]
                tol_v = 0.0
                for ev, level in evals[p]:
                    val, phmax = ev(ts)
                    exp = exp + val
                    tol_v += level * (32 * gen.ulp(max(phmax, 1.0)) + 1e-12)
                got = v[0, p]
                if has_complex[p] and not np.iscomplexobj(got):
                    obs.fail('complex_not_promoted', str(got.dtype))
                err = np.abs(got - exp)
                if np.any(err > tol_v):
                    k = int(np.argmax(err))
                    what = 'noise_only' if not evals[p] else ('with_noise' if n_noise[p] else 'deterministic')
                    obs.fail(f'content:{what}:noise{min(n_noise[p], 2)}',
                             f'pol {p} sample {k} of request {len(sizes)} (n={n}): got {got[k]!r} expected {exp[k]!r} tol {tol_v:.3g}')
                    return obs
            consumed += n
            clock += n * dt_q
            tmax = max(tmax, float(abs(clock)))
            if last['n'] == n:
                obs.cls('equal_size_after_' + last['op'])
            sizes.append(n)
            last['n'], last['op'] = n, 'get'
        elif name == 'set_time':
            last['op'] = 'clock_change' if last['op'] == 'get' else last['op']
            ok, _ = core.call(obs, 'set_time', top.set_time, o['t'])
            if not ok:
                return obs
            clock = Fraction(o['t'])
            tmax = max(tmax, abs(o['t']))
            for name_, val in [('top', top.t_start)] + [('stream', s.t_start) for s in streams]:
                if val != o['t']:
                    obs.fail('set_time_exact', f'{name_} {val!r} vs {o["t"]!r}')
        elif name == 'add_time':
            last['op'] = 'clock_change' if last['op'] == 'get' else last['op']
            ok, _ = core.call(obs, 'add_time', top.add_time, o['t'])
            if not ok:
                return obs
            clock += Fraction(o['t'])
            tmax = max(tmax, float(abs(clock)))
        elif name == 'reset_start':
            ok, _ = core.call(obs, 'reset_start', top.reset_start)
            if not ok:
                return obs
        elif name == 'update_noise':
            n = o['n']
            for p in range(npol):
                ok, _ = core.call(obs, 'update_noise', streams[p].update_noise, n)
                if not ok:
                    return obs
            consumed += n       # the estimate draws n samples from every noise source, the clock is restored
            last['n'], last['op'] = n, 'update_noise'
        if not check_clock(name):
            return obs
    if sizes:
        obs.cls('requests>=2' if len(sizes) >= 2 else 'requests=1')
    anysrc = any(len(s) for s in src)
    obs.nontrivial = len(set(sizes)) >= 2 and anysrc
    return obs
