"""C12 - determinism from seeds, history independence, copy isolation."""
import copy
import hashlib
import json
import os
import pickle
import shutil
import struct
import subprocess
import sys
import tempfile

import numpy as np
from hypothesis import strategies as st

from vp import core, gen, ref_sigproc

PROP_ID = 'C12'
LEVEL = 'exploration'
BUDGET = {'quick': 1600, 'thorough': 16000}
RULE = ('Two generated families. Scenarios: a seeded program over the public API drawn from a grammar (frame noise + '
        'table noise + RFI path + pulse profile; stream and array requests; estimate_channelized_stds(seed); 1..3 '
        'recordings with default / explicit fresh / one reused header dictionary, template on/off, single antenna and '
        'array in either order; re-injection onto a just-written recording via from_data) is executed (1) twice, each in '
        'a pristine forked child of a zygote that imported the library and ran nothing, (2) in such a child after an '
        'unrelated prefix program, (3) in the long-lived worker that already ran other cases, (4) with reused header '
        'dictionaries replaced by equal fresh ones, and - thorough tier and one case per shard in quick - (5) in a real '
        'subprocess with PYTHONHASHSEED=1; the SHA-256 digests of every produced array and file must be identical. '
        'Copies: frames from every construction route (synthetic, loaded .fil/.h5, sliced, after get_waterfall) are '
        'copied or pickled; the copy must equal the original (data, axes, parameters, metadata, noise estimates, next '
        'random draws), mutations of either must not reach the other, and being copied must not change the original; '
        'different seeds must give different noise (x/y, antennas, frames), equal seeds equal noise. Non-trivial: a '
        'scenario with >= 1 random draw (and >= 1 recording in the prefix for the history facet); a copy of a frame '
        'with content.')
ASSUMPTIONS = ['"fresh process" is realised by forking from a zygote that only imported the library; a real interpreter start with another PYTHONHASHSEED is sampled',
               'every randomness source is given a seed and start times are explicit', 'scenarios are drawn from a finite grammar']
REQUIRED_CLASSES = ['scenario', 'copy', 'record_default_dict', 'record_reused_dict', 'prefix_has_recording', 'from_data',
                    'array_record', 'copy_of_loaded_h5', 'copy_of_loaded_fil', 'copy_of_slice', 'copy_of_moved_ts', 'copy_of_consolidated', 'pickle', 'seeds', 'rerecord_same_backend']

# --------------------------------------------------------------------------------------------------
# scenario interpreter (runs inside whichever process is asked to)
# --------------------------------------------------------------------------------------------------


def _digest(*parts):
    h = hashlib.sha256()
    for p in parts:
        if isinstance(p, np.ndarray):
            a = np.ascontiguousarray(p)
            h.update(str(a.dtype).encode() + str(a.shape).encode())
            h.update(a.tobytes())
        elif isinstance(p, bytes):
            h.update(p)
        else:
            h.update(repr(p).encode())
    return h.hexdigest()[:24]


def _files_digest(stem):
    import glob
    parts = []
    for fn in sorted(glob.glob(glob.escape(stem) + '.????.raw')):
        parts.append(os.path.basename(fn)[-8:])
        with open(fn, 'rb') as f:
            parts.append(f.read())
    return _digest(*parts)


def _make_backend(step, seed_offset=0):
    from setigen.voltage import antenna as AN, backend as BE, quantization as Q, polyphase_filterbank as P
    if step.get('array'):
        src = AN.MultiAntennaArray(num_antennas=2, sample_rate=1e6, fch1=1e9, ascending=step['ascending'],
                                   num_pols=step['npol'], delays=[0, 2], seed=step['seed'] + seed_offset)
        for a in src.antennas:
            for s in a.streams:
                s.add_noise(0, 1)
                if step.get('noise2'):
                    s.add_noise(0.05, 0.4)
        src.bg_x.add_noise(0, 0.5)
        if step.get('noise2'):
            src.bg_x.add_noise(0, 0.3)
        src.antennas[0].x.add_constant_signal(f_start=1e9 + 2.3e5, drift_rate=0, level=0.5)
        na = 2
    else:
        src = AN.Antenna(sample_rate=1e6, fch1=1e9, ascending=step['ascending'], num_pols=step['npol'],
                         seed=step['seed'] + seed_offset)
        for s in src.streams:
            s.add_noise(0, 1)
            if step.get('noise2'):
                s.add_noise(0.05, 0.4)
        src.x.add_constant_signal(f_start=1e9 + 2.3e5, drift_rate=0, level=0.5)
        na = 1
    bps = 2 * step['npol'] * step['nbits'] // 8
    block_size = 4 * step['m'] * na * 2 * bps
    be = BE.RawVoltageBackend(src, digitizer=Q.RealQuantizer(num_bits=8, stats_calc_period=step.get('period', 1)),
                              filterbank=P.PolyphaseFilterbank(num_taps=4, num_branches=8),
                              requantizer=Q.ComplexQuantizer(num_bits=step['nbits'], target_fwhm=32 if step['nbits'] == 8 else 5,
                                                             stats_calc_period=step.get('period', 1)),
                              start_chan=1, num_chans=2, block_size=block_size, blocks_per_file=step['bpf'],
                              num_subblocks=step['nsb'])
    return src, be


def _record(be, stem, step, shared):
    kw = dict(output_file_stem=stem, num_blocks=step['nblocks'], length_mode='num_blocks', digitize=step['digitize'],
              load_template=step['template'], verbose=False)
    mode = step['hdr']
    if mode == 'fresh':
        kw['header_dict'] = {'HELLO': 'world', 'OBSID': 7}
    elif mode == 'reused':
        kw['header_dict'] = shared
    be.record(**kw)


def run_scenario(steps, workdir, fresh_for_reused=False):
    """Execute the steps; returns one digest per step."""
    import setigen as stg
    from setigen.voltage import data_stream as DS, antenna as AN, polyphase_filterbank as P, backend as BE, quantization as Q
    out = []
    shared = {'HELLO': 'world', 'OBSID': 7}
    for k, step in enumerate(steps):
        kind = step['kind']
        if fresh_for_reused and step.get('hdr') == 'reused':
            step = dict(step, hdr='fresh')
        if kind == 'frame':
            fr = stg.Frame(fchans=16, tchans=4, df=2.0, dt=1.5, fch1=1e9, ascending=step['ascending'], seed=step['seed'], t_start=0.0)
            n1 = fr.add_noise(x_mean=10.0, noise_type='chi2')
            n2 = fr.add_noise_from_obs(noise_type=step['obs_type'], share_index=step['share'])
            sig = fr.add_signal(stg.simple_rfi_path(f_start=fr.get_frequency(6), drift_rate=0.1, spread=6.0,
                                                    spread_type=step['spread_type'], rfi_type=step['rfi_type'], seed=step['seed2']),
                                stg.periodic_gaussian_t_profile(pulse_width=1.0, period=3.0, pulse_offset_width=0.4,
                                                                pulse_direction='rand', seed=step['seed3']),
                                stg.gaussian_f_profile(width=4.0))
            out.append(_digest(n1, n2, sig, fr.data, float(fr.noise_mean), float(fr.noise_std)))
        elif kind == 'stream':
            s = DS.DataStream(sample_rate=1e6, fch1=1e9, ascending=step['ascending'], seed=step['seed'])
            s.add_noise(0.1, 1.3)
            if step.get('noise2'):
                s.add_noise(-0.2, 0.6)
                s.add_noise(0.0, 0.2)
            s.add_constant_signal(f_start=1e9 + 1.1e5, drift_rate=3e6, level=0.7, phase=0.3)
            a = np.array(s.get_samples(step['n1']), copy=True)
            b = np.array(s.get_samples(step['n2']), copy=True)
            out.append(_digest(a, b, float(s.t_start)))
        elif kind == 'array':
            arr = AN.MultiAntennaArray(num_antennas=3, sample_rate=1e6, num_pols=2, delays=[1, 0, 4], seed=step['seed'])
            for a in arr.antennas:
                a.x.add_noise(0, 1)
                a.y.add_noise(0, 2)
            arr.bg_x.add_noise(0, 0.5)
            arr.bg_y.add_noise(0, 0.25)
            if step.get('noise2'):
                arr.antennas[1].y.add_noise(0, 0.7)
                arr.bg_y.add_noise(0, 0.35)
            a = np.array(arr.get_samples(step['n1'] + 5), copy=True)
            b = np.array(arr.get_samples(step['n2'] + 5), copy=True)
            out.append(_digest(a, b))
        elif kind == 'stds':
            fb = P.PolyphaseFilterbank(num_taps=4, num_branches=8)
            out.append(_digest(np.asarray(fb.estimate_channelized_stds(factor=40, seed=step['seed']))))
        elif kind == 'record':
            src, be = _make_backend(step)
            stem = os.path.join(workdir, f'rec{k}')
            _record(be, stem, step, shared)
            out.append(_digest(_files_digest(stem), float(src.t_start)))
        elif kind == 'from_data':
            src, be = _make_backend(dict(step, hdr='fresh'))
            stem = os.path.join(workdir, f'in{k}')
            _record(be, stem, dict(step, hdr='fresh'), shared)
            src2, _ = _make_backend(step, seed_offset=1)
            fb = P.PolyphaseFilterbank(num_taps=4, num_branches=8)
            fb.estimate_channelized_stds(factor=40, seed=step['seed'])
            be2 = BE.RawVoltageBackend.from_data(stem, src2, digitizer=Q.RealQuantizer(), filterbank=fb, start_chan=1,
                                                 num_subblocks=step['nsb'])
            stem2 = os.path.join(workdir, f'out{k}')
            _record(be2, stem2, step, shared)
            out.append(_digest(_files_digest(stem2)))
        else:
            raise ValueError(kind)
    return out


# --------------------------------------------------------------------------------------------------
# pristine children: a zygote forked at shard start serves "run this in a fresh copy of me"
# --------------------------------------------------------------------------------------------------
class Zygote(object):
    def __init__(self):
        self.req_r, self.req_w = os.pipe()
        self.res_r, self.res_w = os.pipe()
        self.pid = os.fork()
        if self.pid == 0:
            try:
                os.close(self.req_w)
                os.close(self.res_r)
                self._serve()
            finally:
                os._exit(0)
        os.close(self.req_r)
        os.close(self.res_w)

    @staticmethod
    def _read_msg(fd):
        hdr = b''
        while len(hdr) < 4:
            c = os.read(fd, 4 - len(hdr))
            if not c:
                return None
            hdr += c
        (n,) = struct.unpack('<I', hdr)
        buf = b''
        while len(buf) < n:
            c = os.read(fd, n - len(buf))
            if not c:
                return None
            buf += c
        return json.loads(buf.decode())

    @staticmethod
    def _write_msg(fd, obj):
        b = json.dumps(obj).encode()
        os.write(fd, struct.pack('<I', len(b)) + b)

    def _serve(self):
        while True:
            msg = self._read_msg(self.req_r)
            if msg is None:
                return
            r, w = os.pipe()
            pid = os.fork()
            if pid == 0:
                os.close(r)
                try:
                    wd = tempfile.mkdtemp(prefix='vp-C12-child-')
                    try:
                        res = {'ok': run_scenario(msg['prefix'] + msg['steps'], wd)[len(msg['prefix']):]}
                    except BaseException as e:
                        import traceback
                        res = {'err': repr(e), 'tb': traceback.format_exc()[-1500:]}
                    finally:
                        shutil.rmtree(wd, ignore_errors=True)
                    self._write_msg(w, res)
                finally:
                    os._exit(0)
            os.close(w)
            res = self._read_msg(r)
            os.close(r)
            os.waitpid(pid, 0)
            self._write_msg(self.res_w, res if res is not None else {'err': 'child died'})

    def run(self, steps, prefix=()):
        self._write_msg(self.req_w, {'steps': list(steps), 'prefix': list(prefix)})
        res = self._read_msg(self.res_r)
        if res is None:
            raise core.HarnessError('zygote died')
        return res

    def close(self):
        try:
            os.close(self.req_w)
            os.close(self.res_r)
            os.waitpid(self.pid, 0)
        except OSError:
            pass


_ZYG = None
_SUBPROC_DONE = {'n': 0}


def shard_init(tier):
    """Called by the core at the very start of a shard, before any case ran: fork the pristine zygote."""
    global _ZYG
    core.import_setigen()
    if _ZYG is None:
        _ZYG = Zygote()


def shard_close():
    global _ZYG
    if _ZYG is not None:
        _ZYG.close()
        _ZYG = None


# --------------------------------------------------------------------------------------------------
# strategies
# --------------------------------------------------------------------------------------------------
seed = st.integers(0, 2 ** 31 - 2)


def rec_fields():
    return dict(seed=seed, ascending=st.booleans(), npol=st.integers(1, 2), nbits=st.sampled_from([8, 4]),
                m=st.integers(1, 4), nblocks=st.integers(1, 4), bpf=st.integers(1, 3), nsb=st.integers(1, 5),
                digitize=st.booleans(), template=st.booleans(), hdr=st.sampled_from(['default', 'fresh', 'reused']),
                array=st.booleans(), period=st.sampled_from([1, 1, -1, 3]),
                noise2=st.booleans())      # every stream carries a second noise source


def step_strategy():
    return st.one_of(
        st.fixed_dictionaries(dict(kind=st.just('frame'), seed=seed, seed2=seed, seed3=seed, ascending=st.booleans(),
                                   obs_type=st.sampled_from(['chi2', 'gaussian']), share=st.booleans(),
                                   spread_type=st.sampled_from(['uniform', 'normal']),
                                   rfi_type=st.sampled_from(['stationary', 'random_walk']))),
        st.fixed_dictionaries(dict(kind=st.just('stream'), seed=seed, ascending=st.booleans(), n1=st.integers(1, 300), n2=st.integers(1, 300),
                                   noise2=st.booleans())),
        st.fixed_dictionaries(dict(kind=st.just('array'), seed=seed, n1=st.integers(1, 200), n2=st.integers(1, 200), noise2=st.booleans())),
        st.fixed_dictionaries(dict(kind=st.just('stds'), seed=seed)),
        st.fixed_dictionaries(dict(kind=st.just('record'), **rec_fields())),
        st.fixed_dictionaries(dict(kind=st.just('record'), **rec_fields())),
        st.fixed_dictionaries(dict(kind=st.just('from_data'), **rec_fields())),
    )


@st.composite
def strategy_(draw, tier):
    if draw(st.integers(0, 2)) == 0:
        return dict(family='scenario', S=draw(st.lists(step_strategy(), min_size=1, max_size=4)),
                    P=draw(st.lists(step_strategy(), min_size=1, max_size=3)))
    g = draw(gen.geometry(max_fchans=24, max_tchans=8, min_fchans=3, min_tchans=3))
    return dict(family='copy', g=g, origin=draw(st.sampled_from(['synthetic', 'fil', 'h5', 'slice', 'waterfall', 'noise', 'moved_ts', 'consolidated'])),
                how=draw(st.sampled_from(['copy', 'copy', 'pickle'])), seed=draw(seed), seed_b=draw(seed))


def strategy(tier):
    return strategy_(tier)


# --------------------------------------------------------------------------------------------------
def run_case(case, ctx):
    if case['family'] == 'scenario':
        return run_scenario_case(case, ctx)
    return run_copy_case(case, ctx)


def run_scenario_case(case, ctx):
    global _ZYG
    obs = core.Obs()
    obs.cls('scenario')
    S, P = case['S'], case['P']
    kinds = [s['kind'] for s in S]
    for s in S:
        if s['kind'] in ('record', 'from_data'):
            obs.cls('record_' + s['hdr'] + '_dict')
            if s.get('array'):
                obs.cls('array_record')
        if s['kind'] == 'from_data':
            obs.cls('from_data')
    if any(p['kind'] in ('record', 'from_data') for p in P):
        obs.cls('prefix_has_recording')
    if _ZYG is None:
        shard_init(ctx.tier)
    base = _ZYG.run(S)
    if 'err' in base:
        # the scenario itself fails in a pristine process: not a determinism question; report as raise
        obs.fail('raises:scenario', (base['err'] + ' ' + base.get('tb', '')[-600:])[:600])
        return obs
    base = base['ok']
    obs.nontrivial = True

    def compare(tag, res):
        if 'err' in res:
            obs.fail(f'raises:{tag}', (res['err'] + ' ' + res.get('tb', '')[-400:])[:600])
            return
        for k, (a, b) in enumerate(zip(base, res['ok'])):
            if a != b:
                hdr = S[k].get('hdr', '-')
                obs.fail(f'{tag}:{kinds[k]}:{hdr}', f'step {k} of {len(S)} ({kinds[k]}, header {hdr}) differs from the pristine run')
                return
    compare('rerun_in_pristine_process', _ZYG.run(S))
    compare('after_unrelated_prefix', _ZYG.run(S, prefix=P))
    wd = ctx.path('inproc')
    os.makedirs(wd, exist_ok=True)
    try:
        compare('in_long_lived_process', {'ok': run_scenario(S, wd)})
        compare('second_run_same_process', {'ok': run_scenario(S, wd)})
        if any(s.get('hdr') == 'reused' for s in S):
            compare('reused_dict_vs_fresh_dicts', {'ok': run_scenario(S, wd, fresh_for_reused=True)})
    except core.HarnessError:
        raise
    except BaseException as exc:
        who, where = core.classify_exception(exc)
        if who == 'setigen':
            obs.fail('raises:in_process:' + where, repr(exc)[:300])
        else:
            raise core.HarnessError(repr(exc))
    # a second recording with the SAME backend must equal what a fresh backend writes from the same antenna state
    for k, st_ in enumerate(S):
        if st_['kind'] == 'record' and not obs.violations:
            obs.cls('rerecord_same_backend')
            try:
                src, be = _make_backend(st_)
                _record(be, os.path.join(wd, f'first{k}'), dict(st_, hdr='fresh'), {})
                _record(be, os.path.join(wd, f'second{k}'), dict(st_, hdr='fresh'), {})
                got = _files_digest(os.path.join(wd, f'second{k}'))
                src2, be2 = _make_backend(st_)
                drawn = (st_['nblocks'] * 4 * st_['m'] + 4) * 8
                src2.get_samples(drawn)            # bring the twin antenna to the same state in one request
                _record(be2, os.path.join(wd, f'twin{k}'), dict(st_, hdr='fresh'), {})
                want = _files_digest(os.path.join(wd, f'twin{k}'))
            except BaseException as exc:
                who, where = core.classify_exception(exc)
                if who == 'setigen':
                    obs.fail('raises:rerecord:' + where, repr(exc)[:300])
                    break
                raise core.HarnessError(repr(exc))
            if got != want:
                obs.fail(f'second_recording_depends_on_first:{"array" if st_.get("array") else "single"}',
                         f'step {k}: second recording with the same backend differs from a fresh backend at the same antenna state')
            break
    # a real interpreter start with a different hash seed (costly: thorough tier, or once per shard)
    if ctx.tier == 'thorough' and _SUBPROC_DONE['n'] < 6 or _SUBPROC_DONE['n'] < 1:
        _SUBPROC_DONE['n'] += 1
        obs.cls('real_subprocess')
        env = dict(os.environ, PYTHONHASHSEED='1', VERIF_REPO=core.REPO, TQDM_DISABLE='1')
        r = subprocess.run([sys.executable, '-m', 'vp.props.c12'], input=json.dumps(S), capture_output=True, text=True,
                           cwd=core.VERIF, env=env, timeout=600)
        try:
            res = json.loads(r.stdout.strip().splitlines()[-1])
        except Exception:
            raise core.HarnessError('subprocess output: ' + (r.stdout + r.stderr)[-800:])
        compare('fresh_interpreter_other_hashseed', res)
    return obs


def _frame_state(fr):
    return dict(data=fr.data.copy(), fs=np.array(fr.fs, copy=True), ts=np.array(fr.ts, copy=True), shape=tuple(fr.shape),
                df=fr.df, dt=fr.dt, fch1=fr.fch1, asc=bool(fr.ascending), t_start=fr.t_start, name=str(fr.source_name),
                meta=copy.deepcopy(fr.metadata), nm=float(fr.noise_mean), ns=float(fr.noise_std),
                rng=copy.deepcopy(fr.rng.bit_generator.state), fchans=fr.fchans, tchans=fr.tchans)


def _state_diff(a, b):
    for k in a:
        x, y = a[k], b[k]
        same = np.array_equal(x, y) if isinstance(x, np.ndarray) else x == y
        if not same:
            return k
    return None


def run_copy_case(case, ctx):
    stg = core.import_setigen()
    obs = core.Obs()
    obs.cls('copy')
    g = case['g']
    origin = case['origin']
    rs = np.random.RandomState(case['seed'] % (2 ** 31))
    T, N = g['tchans'], g['fchans']
    content = (5 + np.arange(N)[None, :] + 100.0 * np.arange(T)[:, None] + rs.uniform(0, 1, (T, N))).astype(np.float32)

    def build():
        if origin in ('fil', 'h5'):
            p = ctx.path('o.fil')
            if g['ascending']:
                ref_sigproc.write_fil(p, content, g['fch1'] * 1e-6, g['df'] * 1e-6, g['dt'], source_name='SRC_A', extra={'telescope_id': 9, 'machine_id': 3, 'rawdatafile': 'orig.raw'})
            else:
                ref_sigproc.write_fil(p, content[:, ::-1], g['fch1'] * 1e-6, -g['df'] * 1e-6, g['dt'], source_name='SRC_A', extra={'telescope_id': 9, 'machine_id': 3, 'rawdatafile': 'orig.raw'})
            fr = stg.Frame(waterfall=p, seed=case['seed'])
            if origin == 'h5':
                p2 = ctx.path('o.h5')
                fr.save_h5(p2)
                fr = stg.Frame(waterfall=p2, seed=case['seed'])
            return fr
        fr = gen.make_frame(stg, g, data=content.astype(np.float64), seed=case['seed'], source_name='SRC_A')
        if origin == 'noise':
            fr.add_noise(x_mean=10.0, x_std=2.0, noise_type='gaussian')
        if origin == 'slice':
            fr = stg.get_slice(fr, 1, N - 1)
        if origin == 'moved_ts':
            fr.ts = np.asarray(fr.ts) + 12.5 * fr.dt          # the user set the time axis
        if origin == 'consolidated':
            other = gen.make_frame(stg, dict(g, t_start=g['t_start'] + 1000.0), data=content.astype(np.float64) + 3, seed=case['seed'] + 1)
            fr = stg.Cadence([fr, other]).consolidate()      # absolute, gapped time axis
        if origin == 'waterfall':
            fr.get_waterfall()
        return fr
    ok, fr = core.call(obs, f'build[{origin}]', build)
    if not ok:
        return obs
    obs.cls({'fil': 'copy_of_loaded_fil', 'h5': 'copy_of_loaded_h5', 'slice': 'copy_of_slice'}.get(origin, 'copy_of_' + origin))
    obs.nontrivial = True
    fr.add_metadata({'tag': [1, 2, 3], 'note': 'x'})
    before = _frame_state(fr)

    def wf_header(f):
        w = getattr(f, 'waterfall', None)
        if w is None:
            return None
        return {k: (v.decode() if isinstance(v, bytes) else (float(v) if isinstance(v, (int, float, np.floating, np.integer)) else str(v)))
                for k, v in dict(w.header).items()}
    hdr_before = wf_header(fr)

    def hdr_diff(h0, h1):
        bad = []
        for k, v in h0.items():
            w = h1.get(k)
            if isinstance(v, float) and isinstance(w, float):
                if abs(v - w) > 1e-9 * max(abs(v), 1e-300):      # fch1/foff/tsamp/tstart are rewritten from the frame (ulp-level)
                    bad.append(k)
            elif v != w:
                bad.append(k)
        return bad
    how = case['how']
    if how == 'copy':
        ok, c = core.call(obs, f'copy[{origin}]', fr.copy)
    else:
        obs.cls('pickle')
        p = ctx.path('f.pickle')
        ok, _ = core.call(obs, f'save_pickle[{origin}]', fr.save_pickle, p)
        if ok:
            ok, c = core.call(obs, f'load_pickle[{origin}]', stg.Frame.load_pickle, p)
    if not ok:
        return obs
    d = _state_diff(before, _frame_state(fr))
    if d:
        obs.fail(f'original_changed_by_{how}:{d}', origin)
    if hdr_before is not None:
        # a frame that carried a Waterfall (loaded from a file, or after get_waterfall) keeps it, unchanged
        hdr_after = wf_header(fr)
        if hdr_after is None:
            obs.fail(f'original_lost_waterfall_by_{how}', origin)
        elif hdr_diff(hdr_before, hdr_after):
            obs.fail(f'original_waterfall_header_changed_by_{how}', f'{origin}: {hdr_diff(hdr_before, hdr_after)[:4]}')
        if how == 'copy':
            hc = wf_header(c)
            if hc is None or hdr_diff(hdr_before, hc):
                obs.fail('copy_waterfall_header_differs', f'{origin}: {[] if hc is None else hdr_diff(hdr_before, hc)[:4]}')
    d = _state_diff(before, _frame_state(c))
    if d:
        obs.fail(f'{how}_differs:{d}', origin)
        return obs
    if c.data is fr.data or np.shares_memory(c.data, fr.data):
        obs.fail(f'{how}_shares_data', origin)
    # next random draws agree, then independence
    n_o = fr.add_noise(x_mean=3.0, x_std=1.0, noise_type='gaussian')
    mid = _frame_state(c)
    if _state_diff(before, mid):
        obs.fail(f'original_draw_reached_{how}:{_state_diff(before, mid)}', origin)
    n_c = c.add_noise(x_mean=3.0, x_std=1.0, noise_type='gaussian')
    if not np.array_equal(n_o, n_c):
        obs.fail(f'{how}_next_draws_differ', origin)
    o_state = _frame_state(fr)
    c.data[...] = -1.0
    c.metadata['tag'].append(99)
    c.add_metadata({'new': 1})
    c.rng.standard_normal(7)
    c.fs[0] += 1.0
    c.ts[0] += 1.0
    d = _state_diff(o_state, _frame_state(fr))
    if d:
        obs.fail(f'{how}_mutation_reached_original:{d}', origin)
    if how == 'copy' and getattr(c, 'waterfall', None) is not None and getattr(fr, 'waterfall', None) is not None:
        if c.waterfall is fr.waterfall:
            obs.fail('copy_shares_waterfall', origin)
        else:
            # independence reaches into the attached Waterfall: its header, container and data are the copy's own
            wo, wc = fr.waterfall, c.waterfall
            h_o = wf_header(fr)
            shared = [n for n in ('header', 'container', 'file_header') if getattr(wo, n, None) is not None and getattr(wo, n, None) is getattr(wc, n, None)]
            co, cc = getattr(wo, 'container', None), getattr(wc, 'container', None)
            if co is not None and cc is not None and getattr(co, 'header', None) is not None and getattr(co, 'header', None) is getattr(cc, 'header', None):
                shared.append('container.header')
            if shared:
                obs.fail('copy_shares_waterfall_parts', f'{origin}: {shared}')
            if getattr(wo, 'data', None) is not None and getattr(wc, 'data', None) is not None and np.shares_memory(np.asarray(wo.data), np.asarray(wc.data)):
                obs.fail('copy_shares_waterfall_data', origin)
            try:
                wc.header['source_name'] = 'EDITED_IN_COPY'
                wc.header['telescope_id'] = 63
            except Exception:       # noqa: BLE001 - a header that cannot be edited cannot leak either
                pass
            if h_o is not None and wf_header(fr) != h_o:
                obs.fail('copy_waterfall_edit_reached_original', f'{origin}: {hdr_diff(h_o, wf_header(fr))[:4]}')
    # seeds: different seeds give different noise, equal seeds equal noise
    obs.cls('seeds')
    from setigen.voltage import antenna as AN
    a1 = AN.Antenna(sample_rate=1e6, num_pols=2, seed=case['seed'])
    a2 = AN.Antenna(sample_rate=1e6, num_pols=2, seed=case['seed'])
    a3 = AN.Antenna(sample_rate=1e6, num_pols=2, seed=case['seed_b'] if case['seed_b'] != case['seed'] else case['seed'] + 1)
    for a in (a1, a2, a3):
        a.x.add_noise(0, 1)
        a.y.add_noise(0, 1)
    v1, v2, v3 = np.array(a1.get_samples(64)), np.array(a2.get_samples(64)), np.array(a3.get_samples(64))
    if not np.array_equal(v1, v2):
        obs.fail('same_seed_antennas_differ', '')
    if np.array_equal(v1[0, 0], v1[0, 1]):
        obs.fail('polarisations_share_noise', '')
    if np.array_equal(v1, v3):
        obs.fail('different_seeds_same_antenna_noise', '')
    arr = AN.MultiAntennaArray(num_antennas=3, sample_rate=1e6, num_pols=1, delays=[0, 0, 0], seed=case['seed'])
    for a in arr.antennas:
        a.x.add_noise(0, 1)
    va = np.array(arr.get_samples(64))
    if np.array_equal(va[0], va[1]) or np.array_equal(va[1], va[2]):
        obs.fail('array_antennas_share_noise', '')
    # the two polarisations of the shared background draw different noise as well
    arr2 = AN.MultiAntennaArray(num_antennas=2, sample_rate=1e6, num_pols=2, delays=[0, 1], seed=case['seed'])
    for b in arr2.bg_streams:
        b.add_noise(0, 1)
    vb = np.array(arr2.get_samples(64))
    if np.array_equal(vb[0, 0], vb[0, 1]):
        obs.fail('background_polarisations_share_noise', '')
    f1 = stg.Frame(fchans=8, tchans=4, df=2.0, dt=1.0, seed=case['seed'], t_start=0.0)
    f2 = stg.Frame(fchans=8, tchans=4, df=2.0, dt=1.0, seed=case['seed'], t_start=0.0)
    f3 = stg.Frame(fchans=8, tchans=4, df=2.0, dt=1.0, seed=case['seed'] + 1, t_start=0.0)
    n1, n2, n3 = f1.add_noise(5.0), f2.add_noise(5.0), f3.add_noise(5.0)
    if not np.array_equal(n1, n2):
        obs.fail('same_seed_frames_differ', '')
    if np.array_equal(n1, n3):
        obs.fail('different_seed_frames_same_noise', '')
    return obs


if __name__ == '__main__':
    # real-subprocess entry: scenario JSON on stdin, digests (JSON) on the last stdout line
    core.import_setigen()
    steps = json.loads(sys.stdin.read())
    wd = tempfile.mkdtemp(prefix='vp-C12-sub-')
    try:
        try:
            res = {'ok': run_scenario(steps, wd)}
        except BaseException as e:
            res = {'err': repr(e)}
    finally:
        shutil.rmtree(wd, ignore_errors=True)
    print(json.dumps(res))
