"""C03 - save/load through .fil/.h5 preserves data and axis registration."""
import os

import numpy as np
from hypothesis import strategies as st

from vp import core, gen, ref_sigproc

PROP_ID = 'C03'
LEVEL = 'exploration'
BUDGET = {'quick': 6000, 'thorough': 60000}
RULE = ('Model-based histories over a pool of frames: Hypothesis draws 1..8 ops from new(geometry, content seed, source '
        'name, start time; synthetic through every construction route, or loaded from a file written by an independent '
        'SIGPROC writer), get_waterfall(i), copy(i), slice(i,l,r), dedrift(i,rate), pickle(i) and save_load(i, fil|h5|hdf5, '
        'reload by path | by Waterfall object); the reloaded frame joins the pool so that load->derive->save chains arise. '
        'At every save_load: the file is read by an independent reader (no blimpy): nchans == fchans, nints == tchans, pixel '
        '(t,c) at fch1 + c*foff holds the frame value at that frequency (float32), header resolution/start/name; the frame '
        'rebuilt from the file equals the saved one (shape, data, fs to 64 ulp, df, dt, t_start to 5 us, orientation, source '
        'name); blimpy\'s own reader agrees pixel for frequency; get_fs/get_ts/min_freq/max_freq/get_data have exactly '
        'nchans/nints entries and match the frame; get_waterfall() carries the same header/data without a file. Content is '
        'value = c + 1000 t + noise so a flip or shift cannot cancel. Non-trivial: the saved frame has a history (>=1 earlier '
        'op on it or its parent), or is ascending, or fchans is not a power of two.')
ASSUMPTIONS = ['whole-frame saves; loads of whole files or of a blimpy time selection (no sub-band selections)', 'source names: 1..20 characters [A-Za-z0-9_]',
               'start times compared at 5 us (one ulp of an MJD double is 0.63 us)', 'frequencies pass MHz<->Hz: 64 ulp(fmax) tolerance']
REQUIRED_CLASSES = ['fmt=fil', 'fmt=h5', 'asc', 'desc', 'saved:synthetic', 'saved:loaded', 'saved:slice', 'saved:dedrift',
                    'saved:copy', 'saved:pickle', 'slice_after_parent_waterfall', 'by_waterfall_object', 'origin=reffile', 'origin=reffile_tsel', 'frame_from_in_session_waterfall', 'second_synthetic_frame']

NAMES = ['Voyager1', 'TMC1', 'SRC_42', 'a', 'HIP_1234567890123456']


@st.composite
def strategy_(draw, tier):
    g = draw(gen.geometry(max_fchans=64 if tier == 'thorough' else 32, max_tchans=8))
    g['t_start'] = draw(st.sampled_from([1.6e9, 1.6e9 + 0.25, 1.45e9 + 12345.678, 1.7e9]))
    ops = draw(st.lists(st.one_of(
        st.fixed_dictionaries({'op': st.just('save_load'), 'i': st.integers(0, 7), 'fmt': st.sampled_from(['fil', 'h5', 'hdf5']),
                               'how': st.sampled_from(['path', 'path', 'waterfall'])}),
        st.fixed_dictionaries({'op': st.just('save_load'), 'i': st.integers(0, 7), 'fmt': st.sampled_from(['fil', 'h5', 'hdf5']),
                               'how': st.sampled_from(['path', 'path', 'waterfall'])}),
        st.fixed_dictionaries({'op': st.just('get_waterfall'), 'i': st.integers(0, 7)}),
        st.fixed_dictionaries({'op': st.just('copy'), 'i': st.integers(0, 7)}),
        st.fixed_dictionaries({'op': st.just('slice'), 'i': st.integers(0, 7), 'a': gen.finite(0, 1), 'b': gen.finite(0, 1)}),
        st.fixed_dictionaries({'op': st.just('dedrift'), 'i': st.integers(0, 7), 'frac': gen.finite(-0.5, 0.5)}),
        st.fixed_dictionaries({'op': st.just('pickle'), 'i': st.integers(0, 7)}),
        # a frame built from another frame's in-session Waterfall object
        st.fixed_dictionaries({'op': st.just('from_waterfall'), 'i': st.integers(0, 7)}),
        # a second, unrelated synthetic frame with its own name and content joins the session
        st.fixed_dictionaries({'op': st.just('new'), 'name': st.sampled_from(NAMES), 'seed': st.integers(0, 10 ** 6),
                               'asc': st.booleans(), 'dn': st.integers(-3, 5)}),
    ), min_size=2, max_size=10))
    return dict(g=g, origin=draw(st.sampled_from(['synthetic', 'synthetic', 'reffile', 'reffile_tsel'])), seed=draw(st.integers(0, 10 ** 6)),
                tsel=draw(st.tuples(st.integers(0, 3), st.integers(1, 6))),
                name=draw(st.sampled_from(NAMES)), ops=ops)


def strategy(tier):
    return strategy_(tier)


def content(g, seed):
    T, N = g['tchans'], g['fchans']
    rs = np.random.RandomState(seed)
    return (np.arange(N)[None, :] + 1000.0 * np.arange(T)[:, None] + rs.uniform(0, 0.5, (T, N))).astype(np.float32)


def first_frame(stg, case, ctx):
    g = case['g']
    data = content(g, case['seed'])
    if case['origin'] == 'reffile':
        from astropy.time import Time
        path = ctx.path('origin.fil')
        mjd = Time(g['t_start'], format='unix').mjd
        if g['ascending']:
            ref_sigproc.write_fil(path, data, g['fch1'] * 1e-6, g['df'] * 1e-6, g['dt'], tstart_mjd=mjd, source_name=case['name'])
        else:
            ref_sigproc.write_fil(path, data[:, ::-1], g['fch1'] * 1e-6, -g['df'] * 1e-6, g['dt'], tstart_mjd=mjd, source_name=case['name'])
        return stg.Frame(waterfall=path)
    if case['origin'] == 'reffile_tsel':
        # loaded through a blimpy Waterfall opened on a time selection of a longer file
        import blimpy
        from astropy.time import Time
        a, n = case.get('tsel', (1, 3))
        T = g['tchans']
        long = np.concatenate([content(dict(g, tchans=a), case['seed'] + 1) if a else np.zeros((0, g['fchans']), dtype=np.float32),
                               data, content(dict(g, tchans=2), case['seed'] + 2)], axis=0)
        path = ctx.path('origin_long.fil')
        mjd = Time(g['t_start'], format='unix').mjd
        if g['ascending']:
            ref_sigproc.write_fil(path, long, g['fch1'] * 1e-6, g['df'] * 1e-6, g['dt'], tstart_mjd=mjd, source_name=case['name'])
        else:
            ref_sigproc.write_fil(path, long[:, ::-1], g['fch1'] * 1e-6, -g['df'] * 1e-6, g['dt'], tstart_mjd=mjd, source_name=case['name'])
        return stg.Frame(waterfall=blimpy.Waterfall(path, t_start=a, t_stop=a + T))
    return gen.make_frame(stg, g, data=data.astype(np.float64), source_name=case['name'])


def check_file(obs, stg, fr, path, fmt, tag):
    """Independent read of the written file against the frame in memory."""
    try:
        hdr, fdata = ref_sigproc.read_fil(path) if fmt == 'fil' else ref_sigproc.read_h5(path)
    except Exception as e:
        obs.fail(f'file_unreadable:{fmt}:{tag}', repr(e)[:200])
        return None
    T, N = fr.data.shape
    if hdr['nchans'] != N or hdr['_nints'] != T or fdata.shape != (T, N):
        obs.fail(f'file_shape:{tag}', f'header nchans {hdr["nchans"]} data {fdata.shape} vs frame {(T, N)} ({fmt})')
        return None
    fs = np.asarray(fr.fs)
    ftol = 64 * gen.ulp(fs[-1])
    f_file = (hdr['fch1'] + np.arange(N) * hdr['foff']) * 1e6
    want_f = fs if hdr['foff'] > 0 else fs[::-1]
    if (hdr['foff'] > 0) != bool(fr.ascending):
        obs.fail(f'file_orientation:{tag}', f'foff {hdr["foff"]} for ascending={fr.ascending}')
    if np.max(np.abs(f_file - want_f)) > ftol:
        obs.fail(f'file_frequencies:{tag}', f'fch1 {hdr["fch1"]!r} MHz: max deviation {np.max(np.abs(f_file - want_f))} Hz (df {fr.df})')
        return None
    want_d = fr.data if hdr['foff'] > 0 else fr.data[:, ::-1]
    if not np.array_equal(fdata, want_d.astype(np.float32)):
        obs.fail(f'file_data:{tag}', f'{int(np.sum(fdata != want_d.astype(np.float32)))} pixels differ ({fmt})')
    if abs(abs(hdr['foff']) * 1e6 - fr.df) > 1e-12 * fr.df or abs(hdr['tsamp'] - fr.dt) > 1e-12 * fr.dt:
        obs.fail(f'file_resolution:{tag}', f'foff {hdr["foff"]!r} tsamp {hdr["tsamp"]!r} vs df {fr.df!r} dt {fr.dt!r}')
    from astropy.time import Time
    if abs(Time(hdr['tstart'], format='mjd').unix - fr.t_start) > 5e-6:
        obs.fail(f'file_tstart:{tag}', f'{Time(hdr["tstart"], format="mjd").unix!r} vs {fr.t_start!r}')
    if str(hdr.get('source_name', '')).strip() != str(fr.source_name).strip():
        obs.fail(f'file_source_name:{tag}', f'{hdr.get("source_name")!r} vs {fr.source_name!r}')
    return hdr


def compare_frames(obs, a, b, tag):
    """b (reloaded) against a (saved)."""
    if b.data.shape != a.data.shape or tuple(b.shape) != tuple(a.shape):
        obs.fail(f'reload_shape:{tag}', f'{b.data.shape} vs {a.data.shape}')
        return
    if not np.array_equal(b.data.astype(np.float32), a.data.astype(np.float32)):
        flipped = np.array_equal(b.data.astype(np.float32), a.data.astype(np.float32)[:, ::-1])
        obs.fail(f'reload_data:{tag}', 'frequency-flipped' if flipped else f'{int(np.sum(b.data.astype(np.float32) != a.data.astype(np.float32)))} pixels differ')
    ftol = 64 * gen.ulp(np.asarray(a.fs)[-1])
    if np.max(np.abs(np.asarray(b.fs) - np.asarray(a.fs))) > ftol:
        obs.fail(f'reload_fs:{tag}', f'max deviation {np.max(np.abs(np.asarray(b.fs) - np.asarray(a.fs)))} Hz, df {a.df}')
    if abs(b.df - a.df) > 1e-12 * a.df or abs(b.dt - a.dt) > 1e-12 * a.dt:
        obs.fail(f'reload_resolution:{tag}', f'{b.df!r},{b.dt!r} vs {a.df!r},{a.dt!r}')
    if np.max(np.abs(np.asarray(b.ts) - np.asarray(a.ts))) > 1e-12 * max(a.dt * a.tchans, 1e-300):
        obs.fail(f'reload_ts:{tag}', '')
    if abs(b.t_start - a.t_start) > 5e-6:
        obs.fail(f'reload_t_start:{tag}', f'{b.t_start!r} vs {a.t_start!r}')
    if bool(b.ascending) != bool(a.ascending):
        obs.fail(f'reload_orientation:{tag}', '')
    if str(b.source_name).strip() != str(a.source_name).strip():
        obs.fail(f'reload_source_name:{tag}', f'{b.source_name!r} vs {a.source_name!r}')


def run_case(case, ctx):
    stg = core.import_setigen()
    import blimpy
    obs = core.Obs()
    g = case['g']
    ok, fr0 = core.call(obs, 'first_frame', first_frame, stg, case, ctx)
    if not ok:
        return obs
    obs.cls('origin=' + case['origin'], 'asc' if g['ascending'] else 'desc')
    pool = [fr0]
    loaded0 = case['origin'] in ('reffile', 'reffile_tsel')
    kind = ['loaded' if loaded0 else 'synthetic']
    hist = [1 if loaded0 else 0]        # number of earlier ops on the frame or its ancestors
    has_wf = [loaded0]                  # a Waterfall object is attached
    nsaves = 0
    for o in case['ops']:
        i = o.get('i', 0) % len(pool)
        fr = pool[i]
        name = o['op']
        if name == 'get_waterfall':
            ok, wf = core.call(obs, 'get_waterfall', fr.get_waterfall)
            if not ok:
                break
            has_wf[i] = True
            hist[i] += 1
            # the in-session Waterfall is the equivalent of the saved file
            T, N = fr.data.shape
            d = np.asarray(wf.data)
            if d.shape != (T, 1, N):
                obs.fail(f'waterfall_shape:{kind[i]}', f'{d.shape} vs {(T, 1, N)}')
                break
            want = fr.data if fr.ascending else fr.data[:, ::-1]
            if not np.array_equal(d[:, 0, :].astype(np.float32), want.astype(np.float32)):
                obs.fail(f'waterfall_data:{kind[i]}', '')
            h = wf.header
            fs = np.asarray(fr.fs)
            f_h = (h['fch1'] + np.arange(N) * h['foff']) * 1e6
            if h['nchans'] != N or np.max(np.abs(f_h - (fs if fr.ascending else fs[::-1]))) > 64 * gen.ulp(fs[-1]):
                obs.fail(f'waterfall_header:{kind[i]}', f'nchans {h["nchans"]} fch1 {h["fch1"]!r} vs frame {N} channels from {fs[0]!r}')
        elif name == 'copy':
            ok, c = core.call(obs, 'copy', fr.copy)
            if not ok:
                break
            pool.append(c); kind.append('copy'); hist.append(hist[i] + 1); has_wf.append(True)
        elif name == 'pickle':
            p = ctx.path('f.pickle')
            ok, _ = core.call(obs, 'save_pickle', fr.save_pickle, p)
            ok2, c = core.call(obs, 'load_pickle', stg.Frame.load_pickle, p) if ok else (False, None)
            if not ok2:
                break
            pool.append(c); kind.append('pickle'); hist.append(hist[i] + 1); has_wf.append(False)
        elif name == 'from_waterfall':
            obs.cls('frame_from_in_session_waterfall')
            ok, wf = core.call(obs, 'get_waterfall', fr.get_waterfall)
            if not ok:
                break
            has_wf[i] = True
            ok, c = core.call(obs, 'Frame(waterfall=object)', stg.Frame, waterfall=wf)
            if not ok:
                break
            compare_frames(obs, fr, c, f'{kind[i]}:in_session_waterfall')
            pool.append(c); kind.append('loaded'); hist.append(hist[i] + 1); has_wf.append(True)
        elif name == 'new':
            g2 = dict(g, fchans=max(1, g['fchans'] + o['dn']), ascending=o['asc'], route='sizes')
            d2 = content(g2, o['seed']) + 7.0
            ok, c = core.call(obs, 'new_frame', gen.make_frame, stg, g2, d2.astype(np.float64), None, o['name'] + '_B')
            if not ok:
                break
            obs.cls('second_synthetic_frame')
            pool.append(c); kind.append('synthetic'); hist.append(0); has_wf.append(False)
        elif name == 'slice':
            N = fr.fchans
            l = int(o['a'] * N) % N
            r = l + 1 + int(o['b'] * (N - l - 1) + 0.5) if N - l - 1 > 0 else l + 1
            ok, c = core.call(obs, 'get_slice', stg.get_slice, fr, l, r)
            if not ok:
                break
            if has_wf[i]:
                obs.cls('slice_after_parent_waterfall')
            pool.append(c); kind.append('slice'); hist.append(hist[i] + 1); has_wf.append(has_wf[i])
        elif name == 'dedrift':
            if fr.tchans < 2 or fr.fchans < 4:
                continue
            rate = o['frac'] * fr.fchans * fr.df / (fr.tchans * fr.dt)
            ok, c = core.call(obs, 'dedrift', stg.dedrift, fr, rate)
            if not ok:
                break
            pool.append(c); kind.append('dedrift'); hist.append(hist[i] + 1); has_wf.append(has_wf[i])
        elif name == 'save_load':
            fmt = o['fmt']
            if fr.tchans < 3 or fr.fchans < 3:
                fmt = 'fil'       # blimpy's HDF5 reader probes data[2][0][0] and data[0][0][2]: needs >= 3 rows and channels
            kfmt = 'fil' if fmt == 'fil' else 'h5'
            obs.cls('fmt=' + kfmt, 'saved:' + kind[i])
            tag = f'{kind[i]}{"+wf" if has_wf[i] else ""}:{kfmt}'
            path = ctx.path(f's{nsaves}.' + ('fil' if fmt == 'fil' else 'h5'))
            nsaves += 1
            saver = {'fil': fr.save_fil, 'h5': fr.save_h5, 'hdf5': fr.save_hdf5}[fmt]
            before = fr.data.copy()
            ok, _ = core.call(obs, f'save[{tag}]', saver, path)
            if not ok:
                break
            has_wf[i] = True
            if not np.array_equal(fr.data, before):
                obs.fail(f'save_modified_frame:{tag}', '')
            if hist[i] >= 1 or fr.ascending or (fr.fchans & (fr.fchans - 1)):
                obs.nontrivial = True
            hdr = check_file(obs, stg, fr, path, kfmt, tag)
            if hdr is None:
                break
            # reload through the library
            if o['how'] == 'waterfall':
                obs.cls('by_waterfall_object')
                try:
                    wobj = blimpy.Waterfall(path)
                except BaseException as exc:        # blimpy calls sys.exit() on files it cannot make sense of
                    obs.fail(f'independent_reader_cannot_open:{tag}', repr(exc)[:200])
                    break
                ok, new = core.call(obs, f'load_by_waterfall[{kfmt}]', stg.Frame, waterfall=wobj)
            else:
                ok, new = core.call(obs, f'load[{kfmt}]', stg.Frame, path)
            if not ok:
                break
            compare_frames(obs, fr, new, tag)
            # blimpy's own reader: every pixel at the same sky frequency
            try:
                wf = blimpy.Waterfall(path)
                ok = True
            except BaseException as exc:
                obs.fail(f'independent_reader_cannot_open:{tag}', repr(exc)[:200])
                ok = False
            if ok:
                ok2, res = core.call(obs, 'grab_data', wf.grab_data)
                if ok2:
                    bf, bd = res
                    bf = np.atleast_1d(np.asarray(bf)) * 1e6
                    bd = np.asarray(bd)
                    if bd.size == fr.data.size:
                        bd = bd.reshape(fr.data.shape)          # blimpy squeezes single-channel / single-row selections
                    order = np.argsort(bf)
                    if bd.shape != fr.data.shape or np.max(np.abs(bf[order] - np.asarray(fr.fs))) > 64 * gen.ulp(np.asarray(fr.fs)[-1]) \
                            or not np.array_equal(np.asarray(bd)[:, order].astype(np.float32), fr.data.astype(np.float32)):
                        obs.fail(f'independent_reader_disagrees:{tag}', f'{np.asarray(bd).shape} vs {fr.data.shape}')
            # stand-alone helpers
            N, T = fr.fchans, fr.tchans
            for label, arg in (('path', path),):
                ok, hf = core.call(obs, 'get_fs', stg.get_fs, arg)
                if ok:
                    hf = np.asarray(hf)
                    if hf.shape != (N,):
                        obs.fail('helper_get_fs_length', f'{hf.shape[0]} vs nchans {N} (fch1 {hdr["fch1"]!r} foff {hdr["foff"]!r})')
                    elif np.max(np.abs(np.sort(hf) * 1e6 - np.asarray(new.fs))) > 64 * gen.ulp(np.asarray(new.fs)[-1]):
                        obs.fail('helper_get_fs_values', '')
                ok, ht = core.call(obs, 'get_ts', stg.get_ts, arg)
                if ok:
                    ht = np.asarray(ht)
                    if ht.shape != (T,):
                        obs.fail('helper_get_ts_length', f'{ht.shape[0]} vs nints {T} (tsamp {hdr["tsamp"]!r})')
                    elif np.max(np.abs(ht - np.asarray(new.ts))) > 1e-12 * max(T * fr.dt, 1e-300):
                        obs.fail('helper_get_ts_values', '')
                ok, lo = core.call(obs, 'min_freq', stg.min_freq, arg)
                ok2, hi = core.call(obs, 'max_freq', stg.max_freq, arg)
                if ok and ok2:
                    tolm = 64 * gen.ulp(np.asarray(new.fs)[-1])
                    if abs(lo * 1e6 - new.fmin) > tolm or abs(hi * 1e6 - new.fmax) > tolm:
                        obs.fail('helper_min_max_freq', f'{lo!r},{hi!r} MHz vs {new.fmin!r},{new.fmax!r} Hz')
                ok, hd = core.call(obs, 'get_data', stg.get_data, arg)
                if ok:
                    want = new.data if new.ascending else new.data[:, ::-1]
                    if np.asarray(hd).shape != want.shape or not np.array_equal(np.asarray(hd), want):
                        obs.fail('helper_get_data', f'{np.asarray(hd).shape}')
            pool.append(new); kind.append('loaded'); hist.append(hist[i] + 1); has_wf.append(True)
        if obs.violations:
            break
    return obs
