"""C15 - array antennas see the shared background delayed by their configured delays."""
from fractions import Fraction

import numpy as np
from hypothesis import strategies as st

from vp import core, gen

PROP_ID = 'C15'
LEVEL = 'exploration'
BUDGET = {'quick': 8000, 'thorough': 60000}
RULE = ('Model-based histories on a MultiAntennaArray: Hypothesis draws 1..4 antennas, a delay vector (omitted / '
        'all-zero / unsorted / repeated / up to 40; list, tuple, numpy ints), 1..2 polarisations and 1..8 ops '
        '(get(n) with n > max delay, set_time, add_time, reset_start). Mode "closed": every antenna stream and the '
        'background carry time-indexed sinusoids, and out[i,p,k] must equal own_ip(t0+k/sr) + bg_p(t0+(k+D-d_i)/sr) '
        'in closed form with an exact rational clock. Mode "twin": streams also carry seeded noise, and the chunked '
        'history must equal, bit for bit per observation segment, a same-seed twin read in one request. '
        'Non-trivial: >=2 requests in a segment and >=2 distinct delays.')
ASSUMPTIONS = ['closed-form tolerance amplitude*(64 ulp(phase)+1e-12)', 'request sizes exceed the largest delay (documented precondition)',
               'twin mode is a metamorphic relation against the same code under a different chunking']
REQUIRED_CLASSES = ['complex_sources=bg', 'complex_sources=own', 'mode=closed', 'mode=twin', 'delays=omitted', 'delays=zero', 'delays=distinct', 'pols=1', 'pols=2',
                    'requests>=2', 'op=set_time', 'op=reset_start', 'refused_request', 'silent_stream']


@st.composite
def strategy_(draw, tier):
    na = draw(st.sampled_from([1, 2, 2, 3, 3, 4]))
    dk = draw(st.sampled_from(['omitted', 'zero', 'random', 'random', 'random', 'repeated']))
    if dk == 'random':
        delays = draw(st.lists(st.integers(0, 40), min_size=na, max_size=na))
    elif dk == 'repeated':
        v = draw(st.integers(1, 40))
        delays = [v] * na
    else:
        delays = [0] * na
    ops = draw(st.lists(st.one_of(
        st.fixed_dictionaries({'op': st.just('get'), 'extra': st.integers(1, 150)}),
        st.fixed_dictionaries({'op': st.just('get'), 'extra': st.integers(1, 150)}),
        st.fixed_dictionaries({'op': st.just('get'), 'extra': st.integers(1, 12)}),
        st.fixed_dictionaries({'op': st.just('set_time'), 't': st.sampled_from([0.0, 1e-3, 17.25, 0.5])}),
        st.fixed_dictionaries({'op': st.just('add_time'), 't': st.sampled_from([0.0, 1e-6, 0.25])}),
        st.fixed_dictionaries({'op': st.just('reset_start')}),
        # a request that is too short for the largest delay must be refused and change nothing
        st.fixed_dictionaries({'op': st.just('get_too_short'), 'k': st.integers(0, 40)})), min_size=2, max_size=8))
    return dict(na=na, delay_kind=dk, delays=delays,
                delay_form=draw(st.sampled_from(['list', 'tuple', 'ndarray', 'npints', 'uint8', 'uint16', 'int32'])),
                silent=draw(st.lists(st.integers(0, 9), max_size=3)),       # which streams carry no source at all
                npol=draw(st.integers(1, 2)), sr=draw(st.sampled_from([1e6, 2.048e6, 187.5e3])),
                t0=draw(st.sampled_from([0.0, 0.0, 1e-3, 17.25])), seed=draw(st.integers(0, 2 ** 31 - 1)),
                mode=draw(st.sampled_from(['closed', 'twin'])), ascending=draw(st.booleans()), ops=ops,
                fseed=draw(st.integers(0, 10 ** 6)),
                # complex-valued custom sources: on the shared background, on the antennas' own streams, or both
                cplx=draw(st.sampled_from([None, None, None, 'bg', 'own', 'both'])))


def strategy(tier):
    return strategy_(tier)


def wave(cplx, a, f, ts):
    """Custom source: a real sinusoid, or a complex exponential of the same amplitude and frequency."""
    ph = 2 * np.pi * f * np.asarray(ts)
    return a * np.exp(1j * ph) if cplx else a * np.sin(ph)


def build(AN, case, freqs, with_noise):
    cb = case.get('cplx') in ('bg', 'both')
    co = case.get('cplx') in ('own', 'both')
    kw = dict(num_antennas=case['na'], sample_rate=case['sr'], fch1=1e9, ascending=case['ascending'],
              num_pols=case['npol'], t_start=case['t0'], seed=case['seed'])
    if case['delay_kind'] != 'omitted':
        d = case['delays']
        kw['delays'] = {'list': list(d), 'tuple': tuple(d), 'ndarray': np.array(d),
                        'npints': [np.int64(x) for x in d], 'uint8': np.array(d, dtype=np.uint8),
                        'uint16': np.array(d, dtype=np.uint16), 'int32': np.array(d, dtype=np.int32)}[case['delay_form']]
    arr = AN.MultiAntennaArray(**kw)
    dc = kw.get('delays')
    if isinstance(dc, np.ndarray):
        dc[...] = (dc + 5)[::-1]        # the caller re-uses its buffer (e.g. to configure the next array): configured delays stay
    elif isinstance(dc, list):
        dc[:] = [int(x) + 5 for x in dc][::-1]
    silent = set(case.get('silent', []))
    idx = 0
    for p, s in enumerate(arr.bg_streams):
        a, f = freqs['bg'][p]
        if idx not in silent:
            s.add_signal(lambda ts, a=a, f=f: wave(cb, a, f, ts))
            if with_noise:
                s.add_noise(v_mean=0.0, v_std=0.7)
        else:
            freqs['bg'][p] = (0.0, f)          # a stream without any source contributes nothing
        idx += 1
    for i, ant in enumerate(arr.antennas):
        for p, s in enumerate(ant.streams):
            a, f = freqs['own'][i][p]
            if idx not in silent:
                s.add_signal(lambda ts, a=a, f=f: wave(co, a, f, ts))
                if with_noise:
                    s.add_noise(v_mean=0.0, v_std=1.0)
            else:
                freqs['own'][i][p] = (0.0, f)
            idx += 1
    return arr


def run_case(case, ctx):
    core.import_setigen()
    from setigen.voltage import antenna as AN
    obs = core.Obs()
    na, npol, sr = case['na'], case['npol'], case['sr']
    delays = case['delays']
    D = max(delays)
    obs.cls('mode=' + case['mode'], f'pols={npol}',
            'delays=omitted' if case['delay_kind'] == 'omitted' else
            ('delays=zero' if D == 0 else ('delays=distinct' if len(set(delays)) > 1 else 'delays=equal')))
    rs = np.random.RandomState(case['fseed'])
    freqs = dict(own=[[(float(rs.uniform(0.5, 2)), float(rs.uniform(0.01, 0.2) * sr)) for _ in range(npol)] for _ in range(na)],
                 bg=[(float(rs.uniform(0.5, 2)), float(rs.uniform(0.01, 0.2) * sr)) for _ in range(npol)])
    with_noise = case['mode'] == 'twin'
    cb = case.get('cplx') in ('bg', 'both')
    co = case.get('cplx') in ('own', 'both')
    if case.get('cplx'):
        obs.cls('complex_sources=' + case['cplx'])
    if case.get('silent'):
        obs.cls('silent_stream')
    ok, arr = core.call(obs, 'construct[' + case['delay_kind'] + ']', build, AN, case, freqs, with_noise)
    if not ok:
        return obs
    clock = Fraction(case['t0'])
    dtq = 1 / Fraction(sr)
    seg_start = clock           # start of the current observation segment
    seg_sizes = []
    seg_out = []
    max_reqs = 0
    nops = 0

    def flush_segment():
        """twin mode: the finished segment must equal a same-seed twin's single request."""
        nonlocal seg_sizes, seg_out
        if with_noise and seg_sizes:
            tw = build(AN, case, freqs, True)
            # bring the twin's generators to the same point: replay earlier segments in one request each
            for n_prev, t_prev in history:
                tw.set_time(t_prev)
                tw.get_samples(n_prev)
            tw.set_time(float(seg_start_f))
            total = sum(seg_sizes)
            ok, ref = core.call(obs, 'twin_get', tw.get_samples, total)
            if ok:
                got = np.concatenate(seg_out, axis=2)
                ref = np.asarray(ref)
                if got.shape != ref.shape:
                    obs.fail('twin_shape', f'{got.shape} vs {ref.shape}')
                else:
                    # the sinusoids are evaluated on time axes that may differ by an ulp between chunkings;
                    # noise (unit scale) must agree exactly, so a phase-rounding tolerance separates the two
                    amax = max(a for row in freqs['own'] for a, _ in row) + max(b for b, _ in freqs['bg'])
                    fmax = max(max(f for row in freqs['own'] for _, f in row), max(g for _, g in freqs['bg']))
                    ph = 2 * np.pi * fmax * (abs(float(seg_start_f)) + (total + D) / sr)
                    tol = amax * (64 * gen.ulp(max(ph, 1.0)) + 1e-12)
                    if np.all(np.abs(got - ref) <= tol):
                        history.append((sum(seg_sizes), float(seg_start_f)))
                        seg_sizes, seg_out = [], []
                        return
                    bad = np.argwhere(np.abs(got - ref) > tol)[0].tolist()
                    seam = np.cumsum(seg_sizes)[:-1].tolist()
                    obs.fail('chunked_ne_oneshot', f'antenna {bad[0]} pol {bad[1]} sample {bad[2]} of {total}; seams at {seam}; delays {delays}')
            history.append((sum(seg_sizes), float(seg_start_f)))
        seg_sizes, seg_out = [], []

    history = []
    seg_start_f = case['t0']
    for o in case['ops']:
        name = o['op']
        obs.cls('op=' + name)
        nops += 1
        if name == 'get_too_short':
            if D == 0:
                continue
            obs.cls('refused_request')
            k = o['k'] % (D + 1)            # 0..D: not larger than the largest delay
            if k == 0:
                continue
            t_before = arr.t_start
            try:
                arr.get_samples(k)
                obs.fail('short_request_not_refused', f'{k} samples with max delay {D}')
            except AssertionError:
                pass
            except BaseException as exc:
                who, where = core.classify_exception(exc)
                if who == 'setigen':
                    pass          # any refusal will do
                else:
                    raise
            if arr.t_start != t_before:
                obs.fail('refused_request_moved_clock', f'{arr.t_start} vs {t_before}')
            nops -= 1
            continue
        if name == 'get':
            n = D + o['extra']
            ok, v = core.call(obs, 'get_samples', arr.get_samples, n)
            if not ok:
                return obs
            v = np.array(v, copy=True)
            if v.shape != (na, npol, n):
                obs.fail('shape', f'{v.shape} vs {(na, npol, n)}')
                return obs
            k0 = sum(seg_sizes)
            if not with_noise:
                kk = np.arange(n)
                for i in range(na):
                    for p in range(npol):
                        a, f = freqs['own'][i][p]
                        b, g = freqs['bg'][p]
                        t_own = np.array([float(seg_start + (k0 + int(k)) * dtq) for k in kk])
                        t_bg = np.array([float(seg_start + (k0 + int(k) + D - delays[i]) * dtq) for k in kk])
                        exp = wave(co, a, f, t_own) + wave(cb, b, g, t_bg)
                        ph = 2 * np.pi * max(f, g) * (abs(float(seg_start)) + (k0 + n + D) / sr)
                        tol = (a + b) * ((nops + 64) * gen.ulp(max(ph, 1.0)) + 1e-12)
                        err = np.abs(v[i, p] - exp)
                        if np.any(err > tol):
                            k = int(np.argmax(err))
                            # which part is off? try to attribute to the background alignment
                            resid = v[i, p] - wave(co, a, f, t_own)
                            shift = None
                            for s in range(-3, 4):
                                tb = np.array([float(seg_start + (k0 + int(q) + D - delays[i] + s) * dtq) for q in kk])
                                if np.all(np.abs(resid - wave(cb, b, g, tb)) <= tol):
                                    shift = s
                            where = 'first_request' if k0 == 0 else 'later_request'
                            obs.fail(f'alignment:{where}', f'antenna {i} (delay {delays[i]} of max {D}) pol {p} sample {k}: got {v[i, p, k]!r} '
                                     f'expected {exp[k]!r} tol {tol:.2g}; background appears shifted by {shift} samples')
                            return obs
            seg_sizes.append(n)
            seg_out.append(v)
            max_reqs = max(max_reqs, len(seg_sizes))
            clock += n * dtq
            tol = (nops + 4) * gen.ulp(max(float(abs(clock)), 1e-300))
            if abs(Fraction(arr.t_start) - clock) > tol:
                obs.fail('array_clock', f'{arr.t_start!r} vs {float(clock)!r}')
                return obs
        else:
            flush_segment()
            if name == 'set_time':
                ok, _ = core.call(obs, 'set_time', arr.set_time, o['t'])
                clock = Fraction(o['t'])
            elif name == 'add_time':
                ok, _ = core.call(obs, 'add_time', arr.add_time, o['t'])
                clock = Fraction(arr.t_start) if ok else clock
            else:
                ok, _ = core.call(obs, 'reset_start', arr.reset_start)
                clock = Fraction(arr.t_start) if ok else clock
            if not ok:
                return obs
            seg_start = clock
            seg_start_f = arr.t_start
    flush_segment()
    if max_reqs >= 2:
        obs.cls('requests>=2')
    obs.nontrivial = max_reqs >= 2 and len(set(delays)) >= 2
    return obs
