"""C17 - derived frames (slice, de-drift, integrate) keep data and axis registration."""
import numpy as np
from hypothesis import strategies as st

from vp import core, gen

PROP_ID = 'C17'
LEVEL = 'exploration'
BUDGET = {'quick': 12000, 'thorough': 100000}
RULE = ('Hypothesis draws a frame geometry (all construction routes, both orientations, explicit start time '
        'and source name), identifiable content data[i,j]=1000 i + j + 0.25 (+seeded noise), and one derived '
        'operation: slice [l,r) with arbitrary 0<=l<r<=fchans; de-drift with a rate given in channels per step '
        '(either sign, below / near / beyond the rejection limit, by argument or through metadata); integrate '
        'over either axis x mean/sum x normalise x array/frame output (also spectrum()/timeseries()). The oracle '
        'recomputes the result pixel by pixel from the parent (row shifts round(|d| i dt/df), ties excluded) and '
        'compares axes, orientation, resolutions, start time, source name and copy-not-view. A second facet '
        'injects a constant-drift tone and requires the de-drifted arg-max to stay within one column and at the '
        'start frequency. Non-trivial: fchans>=4 and a non-identity operation (proper sub-range / non-zero '
        'shift / tchans>=2); distinct by case hash.')
ASSUMPTIONS = ['between the last row\'s shift reaching fchans and the implemented limit (shift computed with tchans '
               'instead of tchans-1) either rejection or success is accepted',
               'row shifts within 1e-6 of a rounding tie are excluded and counted',
               'normalised output is only checked for non-constant content']
REQUIRED_CLASSES = ['slice_bounds_numpy_integers', 'derived_parent', 'dedrift_exact_ties', 'op=slice', 'op=dedrift', 'op=integrate', 'asc', 'desc', 'dedrift_neg', 'dedrift_pos',
                    'dedrift_rejected', 'dedrift_meta', 'integrate_frame', 'integrate_norm', 'tone', 'integer_data']


@st.composite
def strategy_(draw, tier):
    g = draw(gen.geometry(max_fchans=200 if tier == 'thorough' else 64, max_tchans=16))
    op = draw(st.sampled_from(['slice', 'dedrift', 'dedrift', 'integrate', 'tone']))
    c = dict(g=g, op=op, noise_seed=draw(st.integers(0, 1000)), name=draw(st.sampled_from(['Voyager1', 'TMC1', 'SRC_42'])))
    # the operation may be applied to a frame that is itself derived / has history (chains of derivations)
    c['pre'] = draw(st.lists(st.one_of(
        st.fixed_dictionaries({'op': st.just('slice'), 'a': gen.finite(0, 0.4), 'b': gen.finite(0.6, 1.0)}),
        st.fixed_dictionaries({'op': st.just('dedrift'), 'frac': gen.finite(-0.3, 0.3)}),
        st.fixed_dictionaries({'op': st.sampled_from(['copy', 'get_waterfall', 'float32', 'consolidate', 'moved_ts'])})), min_size=0, max_size=2)) \
        if draw(st.booleans()) else []
    if op == 'dedrift' and draw(st.integers(0, 5)) == 0:
        c['pre'] = [{'op': 'consolidate'}]       # de-drifting a consolidated cadence is the typical use
    N, T = g['fchans'], g['tchans']
    if op == 'slice':
        l = draw(st.integers(0, N - 1))
        r = draw(st.integers(l + 1, N))
        # bounds arrive as Python ints or as numpy integers (np.argmax, array arithmetic)
        c.update(l=l, r=r, bound_type=draw(st.sampled_from(['int', 'int', 'np.int64', 'np.int32', 'np.intp'])))
    elif op == 'dedrift':
        # total shift over the frame, in channels, relative to the band: below, near and beyond the limit
        tot = draw(st.one_of(gen.finite(0, 0.9), gen.finite(0.9, 1.2), st.just(0.0)))
        sign = draw(st.sampled_from([1, -1]))
        c.update(shift_frac=tot, sign=sign, via_meta=draw(st.booleans()))
        if draw(st.integers(0, 7)) == 0:
            # exact half-channel shifts: round() in the statement is read as numpy's round-half-to-even
            c['g'].update(df=1.0, dt=1.0, fch1=max(c['g']['fch1'], 4.0 * c['g']['fchans'] + 1.0))
            c['tie_rate'] = draw(st.sampled_from([0.5, 1.5, 2.5, 0.25, 0.75]))
    elif op == 'integrate':
        c.update(axis=draw(st.sampled_from(['t', 'f', 0, 1])), mode=draw(st.sampled_from(['mean', 'sum', 's', 'm'])),
                 normalize=draw(st.booleans()), how=draw(st.sampled_from(['array', 'frame', 'helper'])),
                 omit_defaults=draw(st.sampled_from([False, False, True])))
        if draw(st.integers(0, 4)) == 0:
            # integer-typed data (8/16-bit spectrogram products): the sum / mean is the mathematical one, not one wrapped to the dtype
            c['int_dtype'] = draw(st.sampled_from(['uint8', 'int16', 'int32']))
    else:
        c.update(start=draw(gen.finite(0.3, 0.7)), drift_ch=draw(gen.finite(-1.5, 1.5)))
    return c


def strategy(tier):
    return strategy_(tier)


def parent(stg, case):
    g = case['g']
    T, N = g['tchans'], g['fchans']
    rs = np.random.RandomState(case['noise_seed'])
    data = 1000.0 * np.arange(T)[:, None] + np.arange(N)[None, :] + 0.25 + rs.uniform(0, 0.125, (T, N))
    fr = gen.make_frame(stg, g, data=data, seed=7, source_name=case['name'])
    return fr, data


def check_common(obs, tag, fr, child, keep_df=True, keep_dt=True):
    if bool(child.ascending) != bool(fr.ascending):
        obs.fail(f'{tag}:orientation', '')
    if keep_df and child.df != fr.df:
        obs.fail(f'{tag}:df', f'{child.df} vs {fr.df}')
    if keep_dt and child.dt != fr.dt:
        obs.fail(f'{tag}:dt', f'{child.dt} vs {fr.dt}')
    if child.t_start != fr.t_start:
        obs.fail(f'{tag}:t_start', f'{child.t_start} vs {fr.t_start}')
    if child.source_name != fr.source_name:
        obs.fail(f'{tag}:source_name', f'{child.source_name!r} vs {fr.source_name!r}')


def ok_int_data(fr):
    return np.all(np.isfinite(np.asarray(fr.data, dtype=float)))


def check_copy(obs, tag, fr, child, before):
    child.data[...] = 77 if child.data.dtype.kind in 'iu' else -12345.0
    if not np.array_equal(fr.data, before):
        obs.fail(f'{tag}:view_not_copy', '')


def run_case(case, ctx):
    stg = core.import_setigen()
    obs = core.Obs()
    g = case['g']
    T, N = g['tchans'], g['fchans']
    op = case['op']
    obs.cls('op=' + ('dedrift' if op == 'tone' else op), 'asc' if g['ascending'] else 'desc', 'route=' + g['route'])
    fr, data = parent(stg, case)
    for pre in case.get('pre', []):
        if pre['op'] == 'slice' and fr.fchans >= 4:
            l = int(pre['a'] * fr.fchans)
            r = max(l + 2, int(pre['b'] * fr.fchans))
            ok, fr = core.call(obs, 'pre:get_slice', stg.get_slice, fr, l, min(r, fr.fchans))
        elif pre['op'] == 'dedrift' and fr.fchans >= 8 and fr.tchans >= 2:
            ok, fr = core.call(obs, 'pre:dedrift', stg.dedrift, fr, pre['frac'] * fr.fchans * fr.df / (fr.tchans * fr.dt))
        elif pre['op'] == 'copy':
            ok, fr = core.call(obs, 'pre:copy', fr.copy)
        elif pre['op'] == 'get_waterfall':
            ok, _ = core.call(obs, 'pre:get_waterfall', fr.get_waterfall)
        elif pre['op'] == 'float32':
            fr.data = fr.data.astype(np.float32)
            ok = True
        elif pre['op'] == 'moved_ts':
            fr.ts = np.asarray(fr.ts) + 3.25 * fr.dt
            ok = True
        elif pre['op'] == 'consolidate':
            # the frame under test is a consolidated two-scan cadence with a slew gap: absolute, gapped time axis
            other = stg.Frame.from_data(fr.df, fr.dt, fr.fch1, fr.ascending, np.array(fr.data, dtype=float) + 500.0,
                                        t_start=fr.t_start, source_name=fr.source_name)
            ok, cf = core.call(obs, 'pre:consolidate', lambda: stg.Cadence([fr, other], t_slew=7.5 * fr.dt, t_overwrite=True).consolidate())
            if ok:
                cf.source_name = fr.source_name
                fr = cf
        else:
            continue
        if not ok:
            return obs
        obs.cls('derived_parent')
    if case.get('int_dtype') and ok_int_data(fr):
        lim = {'uint8': 200, 'int16': 30000, 'int32': 2 ** 31 - 1000}[case['int_dtype']]
        fr.data = (np.floor(np.asarray(fr.data, dtype=float) * 37.0) % lim).astype(case['int_dtype'])
        obs.cls('integer_data')
    custom_ts = any(p_['op'] in ('moved_ts', 'consolidate') for p_ in case.get('pre', []))   # children then get the default grid
    data = np.array(fr.data, dtype=float, copy=True)
    # single-precision data is reduced in single precision by numpy
    rtol = 1e-12 if fr.data.dtype == np.float64 else 64 * float(np.finfo(np.float32).eps) * max(fr.fchans, fr.tchans)
    g = dict(g, fchans=fr.fchans, tchans=fr.tchans)
    T, N = g['tchans'], g['fchans']
    before = data.copy()
    fs = np.asarray(fr.fs).copy()
    ftol = 64 * gen.ulp(fs[-1])

    if op == 'slice':
        l, r = case['l'], case['r']
        if N != case['g']['fchans']:       # derived parent: rescale the drawn bounds
            l = l * N // case['g']['fchans']
            r = max(l + 1, min(N, r * N // case['g']['fchans']))
        bt = case.get('bound_type', 'int')
        conv = {'int': int, 'np.int64': np.int64, 'np.int32': np.int32, 'np.intp': np.intp}[bt]
        if bt != 'int':
            obs.cls('slice_bounds_numpy_integers')
        ok, ch = core.call(obs, 'get_slice', stg.get_slice, fr, conv(l), conv(r))
        if not ok:
            return obs
        obs.nontrivial = N >= 4 and (r - l) < N
        if ch.data.shape != (T, r - l):
            obs.fail('slice:shape', f'{ch.data.shape} vs {(T, r - l)}')
            return obs
        if not np.array_equal(ch.data, before[:, l:r]):
            obs.fail('slice:data', '')
        if np.asarray(ch.fs).shape != (r - l,) or np.max(np.abs(np.asarray(ch.fs) - fs[l:r])) > ftol:
            obs.fail('slice:fs', f'{ch.fs[0]} vs {fs[l]}')
        if not custom_ts and not np.array_equal(np.asarray(ch.ts), np.asarray(fr.ts)):
            obs.fail('slice:ts', '')
        check_common(obs, 'slice', fr, ch)
        ok, ch2 = core.call(obs, 'Frame.get_slice', fr.get_slice, conv(l), conv(r))
        if ok and not np.array_equal(ch2.data, before[:, l:r]):
            obs.fail('slice:method', '')
        check_copy(obs, 'slice', fr, ch, before)
        return obs

    if op == 'dedrift':
        df, dt = float(fr.df), float(fr.dt)
        # rate such that the shift accumulated over tchans steps is shift_frac * fchans channels
        rate_mag = case['shift_frac'] * N * df / (T * dt)
        exact = case.get('tie_rate') is not None and df == 1.0 and dt == 1.0 and not case.get('pre')
        if exact:
            rate_mag = case['tie_rate']
            obs.cls('dedrift_exact_ties')
        rate = case['sign'] * rate_mag
        off = np.abs(rate) * np.arange(T) * dt / df
        off_T = abs(rate) * T * dt / df
        tie = np.any(np.abs(off - np.floor(off) - 0.5) < 1e-6) or abs(off_T - np.floor(off_T) - 0.5) < 1e-6
        if tie and not exact:
            obs.count('excluded_ties')
            return obs
        offs = np.rint(off).astype(int)          # exactly representable halves: half to even
        lim = int(np.rint(off_T))
        obs.cls('dedrift_neg' if rate < 0 else 'dedrift_pos')
        if case['via_meta']:
            fr.add_metadata({'drift_rate': rate})
            obs.cls('dedrift_meta')
            fn = lambda: stg.dedrift(fr)
        else:
            fn = lambda: stg.dedrift(fr, rate)
        if offs[-1] >= N:
            obs.cls('dedrift_rejected')
            core.expect_raises(obs, 'dedrift_beyond_limit', (ValueError,), fn)
            return obs
        if lim >= N:
            # between the two limits either behaviour is admitted
            try:
                ch = fn()
            except ValueError:
                obs.cls('dedrift_rejected')
                return obs
            except BaseException as exc:
                who, where = core.classify_exception(exc)
                if who == 'setigen':
                    obs.fail('raises:dedrift:' + where, repr(exc)[:200])
                    return obs
                raise
        else:
            ok, ch = core.call(obs, 'dedrift', fn)
            if not ok:
                return obs
        W = ch.data.shape[1]
        obs.nontrivial = N >= 4 and offs[-1] > 0
        if ch.data.shape[0] != T or W < 1 or W > N - offs[-1]:
            obs.fail('dedrift:width', f'{ch.data.shape} with last shift {offs[-1]} of {N}')
            return obs
        cfs = np.asarray(ch.fs)
        if cfs.shape != (W,):
            obs.fail('dedrift:fs_length', cfs.shape)
            return obs
        j0 = int(np.rint((cfs[0] - fs[0]) / df))
        if j0 < 0 or j0 + W > N or np.max(np.abs(cfs - fs[j0:j0 + W])) > ftol:
            obs.fail('dedrift:fs_not_on_parent_grid', f'j0={j0} W={W}')
            return obs
        # row 0 keeps its pixels at their original frequencies; row i is shifted towards the drift start
        exp = np.empty((T, W))
        okrows = True
        for i in range(T):
            s = j0 + (offs[i] if rate >= 0 else -offs[i])
            if s < 0 or s + W > N:
                okrows = False
                break
            exp[i] = before[i, s:s + W]
        if not okrows:
            obs.fail('dedrift:outside_common_band', f'j0={j0} W={W} offs={offs.tolist()[:6]}')
        elif not np.array_equal(ch.data, exp):
            bad = int(np.flatnonzero(np.any(ch.data != exp, axis=1))[0])
            obs.fail('dedrift:data', f'row {bad} (shift {offs[bad]}, rate {rate})')
        if not custom_ts and not np.array_equal(np.asarray(ch.ts), np.asarray(fr.ts)):
            obs.fail('dedrift:ts', '')
        check_common(obs, 'dedrift', fr, ch)
        if not np.array_equal(fr.data, before):
            obs.fail('dedrift:parent_modified', '')
        check_copy(obs, 'dedrift', fr, ch, before)
        return obs

    if op == 'tone':
        obs.cls('tone')
        if N < 8 or T < 2:
            return obs
        df, dt = float(fr.df), float(fr.dt)
        z = stg.Frame(fchans=N, tchans=T, df=df, dt=dt, fch1=fr.fch1, ascending=g['ascending'],
                      t_start=g['t_start'], source_name=case['name'])
        # keep the tone inside the band and the total drift below the rejection limit
        drift_ch = case['drift_ch']
        total = abs(drift_ch) * T
        if total > 0.3 * N:
            drift_ch *= 0.3 * N / total
        c0 = int(case['start'] * (N - 1))
        c0 = min(max(c0, int(abs(drift_ch) * T) + 2), N - 3 - int(abs(drift_ch) * T))
        if c0 < 2 or c0 > N - 3:
            return obs
        f0 = float(z.get_frequency(c0))
        rate = drift_ch * df / dt
        ok, _ = core.call(obs, 'tone_inject', z.add_signal, stg.constant_path(f_start=f0, drift_rate=rate),
                          stg.constant_t_profile(level=1.0), stg.gaussian_f_profile(width=1.2 * df),
                          stg.constant_bp_profile(level=1.0))
        if not ok:
            return obs
        off = abs(rate) * np.arange(T + 1) * dt / df
        if np.any(np.abs(off - np.floor(off) - 0.5) < 1e-3):
            obs.count('excluded_ties')
            return obs
        ok, dd = core.call(obs, 'tone_dedrift', stg.dedrift, z, rate)
        if not ok:
            return obs
        obs.nontrivial = abs(drift_ch) > 0.05
        cols = np.argmax(dd.data, axis=1)
        if cols.max() - cols.min() > 1:
            obs.fail('tone:not_single_column', f'argmax columns {cols.tolist()} drift {drift_ch} ch/step')
        lab = np.asarray(dd.fs)[int(np.round(np.median(cols)))]
        if abs(lab - f0) > 1.01 * df:
            obs.fail('tone:label', f'labelled {lab} but started at {f0} (df {df})')
        check_common(obs, 'tone', z, dd)
        return obs

    # integrate
    axis, mode, normalize, how = case['axis'], case['mode'], case['normalize'], case['how']
    t_axis = axis in ('t', 0)      # integrate over time -> spectrum
    red = np.sum if mode[0] == 's' else np.mean
    raw = red(before, axis=0 if t_axis else 1)
    obs.cls('integrate_norm' if normalize else 'integrate_raw')
    # documented defaults (axis='t', mode='mean', normalize=False) are left out in a third of the cases
    kwi = dict(axis=axis, mode=mode, normalize=normalize)
    if case.get('omit_defaults'):
        obs.cls('integrate_defaults_omitted')
        kwi = {k: v for k, v in kwi.items() if not ((k == 'axis' and v == 't') or (k == 'mode' and v == 'mean') or (k == 'normalize' and v is False))}
    if how == 'array':
        ok, out = core.call(obs, 'integrate', stg.integrate, fr, **kwi)
        child = None
    elif how == 'frame':
        ok, child = core.call(obs, 'integrate_frame', stg.integrate, fr, as_frame=True, **kwi)
        obs.cls('integrate_frame')
    else:
        f = stg.spectrum if t_axis else stg.timeseries
        kwi.pop('axis', None)
        ok, child = core.call(obs, 'spectrum_timeseries', f, fr, **kwi)
        obs.cls('integrate_frame')
    if not ok:
        return obs
    if child is not None:
        want_shape = (1, N) if t_axis else (T, 1)
        if child.data.shape != want_shape:
            obs.fail('integrate:frame_shape', f'{child.data.shape} vs {want_shape}')
            return obs
        out = child.data.flatten()
        ok, arr = core.call(obs, 'array()', child.array)
        if ok and not np.array_equal(np.asarray(arr), out, equal_nan=True):
            obs.fail('integrate:array_method', '')
        if t_axis:
            if not isinstance(child, stg.Spectrum):
                obs.fail('integrate:type', type(child).__name__)
            if np.asarray(child.fs).shape != fs.shape or np.max(np.abs(np.asarray(child.fs) - fs)) > ftol:
                obs.fail('integrate:spectrum_fs', '')
            check_common(obs, 'spectrum', fr, child, keep_dt=False)
            if abs(child.dt - fr.dt * T) > 4 * gen.ulp(fr.dt * T):
                obs.fail('spectrum:dt', f'{child.dt} vs {fr.dt * T}')
        else:
            if not isinstance(child, stg.TimeSeries):
                obs.fail('integrate:type', type(child).__name__)
            if not custom_ts and not np.array_equal(np.asarray(child.ts), np.asarray(fr.ts)):
                obs.fail('integrate:timeseries_ts', '')
            check_common(obs, 'timeseries', fr, child, keep_df=False)
            if abs(child.df - fr.df * N) > 4 * gen.ulp(fr.df * N):
                obs.fail('timeseries:df', f'{child.df} vs {fr.df * N}')
    out = np.asarray(out, dtype=float)
    obs.nontrivial = N >= 4 and T >= 2
    if out.shape != raw.shape:
        obs.fail('integrate:shape', f'{out.shape} vs {raw.shape}')
        return obs
    if not normalize:
        if np.max(np.abs(out - raw)) > rtol * np.max(np.abs(raw)):
            obs.fail(f'integrate:value:{"sum" if mode[0] == "s" else "mean"}', f'{np.max(np.abs(out - raw))}')
    elif len(raw) >= 3 and np.ptp(raw) > 0:
        from astropy.stats import sigma_clip
        # positive affine map of the raw integration
        A = np.vstack([raw, np.ones_like(raw)]).T
        (a, b), *_ = np.linalg.lstsq(A, out, rcond=None)
        if not (a > 0) or np.max(np.abs(A @ np.array([a, b]) - out)) > max(1e-8, 1e3 * rtol) * max(1.0, np.max(np.abs(out))):
            obs.fail('integrate:normalised_not_affine', f'a={a}')
        else:
            c = sigma_clip(out)
            if abs(np.mean(c)) > max(1e-8, 1e3 * rtol) or abs(np.std(c) - 1) > max(1e-8, 1e3 * rtol):
                obs.fail('integrate:normalised_stats', f'{np.mean(c)} {np.std(c)}')
    if not np.array_equal(fr.data, before):
        obs.fail('integrate:parent_modified', '')
    if child is not None:
        check_copy(obs, 'integrate', fr, child, before)
    return obs
