"""C14 - injection onto existing RAW: exact decode, same framing, stationary gain."""
import math
import os

import numpy as np
from hypothesis import strategies as st

from vp import core, gen, volt, ref_guppi
from vp.props.c08 import reference_fast
from vp.props.c02 import quantize_ref

PROP_ID = 'C14'
LEVEL = 'exploration'
BUDGET = {'quick': 3500, 'thorough': 30000}
RULE = ('Hypothesis draws an INPUT recording that is written by an independent GUPPI writer (not by setigen): 8/4 bit, '
        '1-2 pols, 1-3 antennas, DIRECTIO absent/0/1 incl. 512-aligned headers, 1-3 files with a partial last file, '
        'seeded integer content with distinct statistics per antenna/polarisation; and a synthetic antenna carrying a '
        'noise-free tone on a fine-bin centre of a recorded coarse channel, digitiser on/off, num_subblocks 1..m+3, a '
        'requested length shorter than / equal to / longer than the input. Oracles: (1) every block returned by '
        '_read_next_block equals the independent decode; (2) the output, parsed independently, has the input\'s '
        'BLOCSIZE/NBITS/NPOL/OBSNCHAN/NANTS and min(requested, input) blocks; (3) demodulating (output - input) against '
        'the tone per sub-block gives, per antenna and polarisation, amplitudes within [0.4, 2.5] x their median (segments of >= 32 spectra) over all sub-blocks and blocks; (4) with one '
        'sub-block per block the output equals an exact two-stage requantisation model sample for sample (ties excluded); '
        '(5) channelized_stds is unchanged by a recording. Non-trivial: >=2 sub-blocks or >=2 blocks with the tone visible.')
ASSUMPTIONS = ['input headers carry the cards a GUPPI writer always emits (TELESCOP, OBSERVER, SRC_NAME, sizes)',
               "requantiser as built by from_data (statistics refreshed on every call); gain band [0.4,2.5] x median per antenna/pol (the final requantisation stage's per-sub-block deviation estimate scatters by ~25%; a decay by the digitiser deviation is 13.6x)",
               'exact model only for num_subblocks=1; rounding-tie window 1e-6']
REQUIRED_CLASSES = ['input_without_descriptive_cards', 'output_with_template', 'bits=8', 'bits=4', 'pols=1', 'pols=2', 'ants>1', 'directio=1', 'directio=0', 'aligned', 'multi_file',
                    'digitize', 'nodigitize', 'requested_longer', 'requested_shorter', 'exact_model', 'subblocks>=2', 'lazy_channelized_stds', 'per_pol_digitisers', 'record_after_aborted_record']


@st.composite
def strategy_(draw, tier):
    B = draw(st.sampled_from([8, 16, 32]))
    taps = draw(st.integers(2, 6))
    nch = draw(st.integers(1, min(4, B // 2 - 1)))
    start = draw(st.integers(1, B // 2 - nch))           # keep off the DC channel
    m = draw(st.one_of(st.integers(4, 16), st.integers(16, 48)))
    npol = draw(st.integers(1, 2))
    nbits = draw(st.sampled_from([8, 8, 4]))
    na = draw(st.sampled_from([1, 1, 2, 3]))
    nblocks_in = draw(st.integers(1, 5))
    return dict(B=B, taps=taps, num_chans=nch, start_chan=start, m=m, npol=npol, nbits=nbits, na=na,
                nblocks_in=nblocks_in, bpf_in=draw(st.integers(1, 3)),
                requested=draw(st.sampled_from(['equal', 'shorter', 'longer', 'default'])),
                directio=draw(st.sampled_from(['absent', 0, 1, 1])), aligned=draw(st.booleans()),
                nsb=draw(st.one_of(st.just(1), st.integers(1, m + 3))), digitize=draw(st.booleans()),
                sr=draw(st.sampled_from([1e6, 187.5e6, 3e9])), ascending=draw(st.booleans()),
                seed=draw(st.integers(0, 10 ** 6)), tone_chan=draw(st.integers(0, 3)),
                tone_bin=draw(st.integers(1, 3)), level=draw(st.sampled_from([0.5, 1.0, 2.0])),
                fch1=draw(st.sampled_from([0.0, 6e9])), preseed=draw(st.sampled_from([True, True, True, False])),
                dig_list=draw(st.booleans()), dig_fwhms=draw(st.lists(st.sampled_from([32.0, 20.0, 12.0, 48.0]), min_size=6, max_size=6)),
                abort_first=draw(st.sampled_from([False, False, True])), abort_call=draw(st.integers(2, 4)),
                earlier_use=draw(st.sampled_from([False, False, True])),
                omit_cards=draw(st.sampled_from([None, None, None, ['TELESCOP'], ['OBSERVER', 'SRC_NAME'], ['TELESCOP', 'OBSERVER', 'SRC_NAME', 'BACKEND']])),
                template=draw(st.sampled_from([False, False, True])), user_cards=draw(st.sampled_from([False, False, False, True])))


def strategy(tier):
    return strategy_(tier)


def make_input(c, stem):
    """Write the input recording with the independent writer; returns list of per-block complex arrays."""
    rs = np.random.RandomState(c['seed'])
    bps = 2 * c['npol'] * c['nbits'] // 8
    spb = c['taps'] * c['m']
    obsnchan = c['na'] * c['num_chans']
    block_size = spb * obsnchan * bps
    lo, hi = -2 ** (c['nbits'] - 1), 2 ** (c['nbits'] - 1) - 1
    scale = 14.0 if c['nbits'] == 8 else 2.2
    chan_bw = c['sr'] / c['B'] * (1 if c['ascending'] else -1)
    tbin = c['B'] / c['sr']
    base = {'BACKEND': 'GUPPI', 'TELESCOP': 'REFTEL', 'OBSERVER': 'verif', 'SRC_NAME': 'REFSRC',
            'NBITS': c['nbits'], 'NPOL': c['npol'], 'OBSNCHAN': obsnchan, 'BLOCSIZE': block_size,
            'TBIN': tbin, 'CHAN_BW': chan_bw * 1e-6, 'OBSBW': chan_bw * c['num_chans'] * 1e-6,
            'OBSFREQ': (c['fch1'] + (c['start_chan'] + (c['num_chans'] - 1) / 2) * chan_bw) * 1e-6,
            'SCANLEN': c['nblocks_in'] * spb * tbin, 'PKTIDX': 0}
    for k in c.get('omit_cards') or []:
        base.pop(k, None)          # descriptive cards are optional in a RAW header
    if c['na'] > 1:
        base['NANTS'] = c['na']
    if c['directio'] != 'absent':
        base['DIRECTIO'] = c['directio']
    if c['aligned']:
        k = 0
        while (len(base) + 1) % 32:
            base[f'PAD{k:04d}'] = k
            k += 1
    blocks = []
    for b in range(c['nblocks_in']):
        v = np.zeros((obsnchan, spb, c['npol']), dtype=complex)
        for a in range(c['na']):
            for p in range(c['npol']):
                s = scale * (1.0 + 0.25 * a + 0.4 * p)
                mu = 0.3 * (a - p)
                re = np.clip(np.rint(mu + s * rs.standard_normal((c['num_chans'], spb))), lo, hi)
                im = np.clip(np.rint(-mu + s * rs.standard_normal((c['num_chans'], spb))), lo, hi)
                v[a * c['num_chans']:(a + 1) * c['num_chans'], :, p] = re + 1j * im
        blocks.append(v)
    nfiles = -(-c['nblocks_in'] // c['bpf_in'])
    for i in range(nfiles):
        part = []
        for j, v in enumerate(blocks[i * c['bpf_in']:(i + 1) * c['bpf_in']]):
            hdr = dict(base)
            hdr['PKTIDX'] = (i * c['bpf_in'] + j) * spb
            part.append((hdr, ref_guppi.encode(v, c['nbits'])))
        ref_guppi.write_file(f'{stem}.{i:04d}.raw', part)
    return blocks, dict(bps=bps, spb=spb, obsnchan=obsnchan, block_size=block_size, nfiles=nfiles, tbin=tbin,
                        chan_bw=chan_bw, ncards=len(base) + 1)


def tone_setup(c):
    """Tone on a fine-bin centre: tone_bin cycles per 16 spectra inside recorded channel tone_chan."""
    idx = c['tone_chan'] % c['num_chans']
    kabs = c['start_chan'] + idx
    chan_bw_abs = c['sr'] / c['B']
    beta = c['tone_bin'] / 16.0
    sign = 1.0 if c['ascending'] else -1.0
    return idx, c['fch1'] + sign * (kabs + beta) * chan_bw_abs, beta


def build(c, stem_in):
    from setigen.voltage import antenna as AN, backend as BE, quantization as Q, polyphase_filterbank as P
    if c['na'] > 1:
        src = AN.MultiAntennaArray(num_antennas=c['na'], sample_rate=c['sr'], fch1=c['fch1'], ascending=c['ascending'],
                                   num_pols=c['npol'], delays=[0] * c['na'], seed=c['seed'])
        streams = [s for a in src.antennas for s in a.streams]
    else:
        src = AN.Antenna(sample_rate=c['sr'], fch1=c['fch1'], ascending=c['ascending'], num_pols=c['npol'], seed=c['seed'])
        streams = list(src.streams)
    _, f_tone, _ = tone_setup(c)
    for s in streams:
        s.add_constant_signal(f_start=f_tone, drift_rate=0.0, level=c['level'])
    fb = P.PolyphaseFilterbank(num_taps=c['taps'], num_branches=c['B'])
    if c.get('preseed', True) or c['na'] > 1 or c['B'] > 8:
        fb.estimate_channelized_stds(factor=300, seed=1)      # pre-seeded (cheap), copied into every filterbank
    # else: left to the backend, which estimates lazily inside the first sub-block (the default use)
    be = BE.RawVoltageBackend.from_data(stem_in, src, digitizer=make_digitizers(c), filterbank=fb,
                                        start_chan=c['start_chan'], num_subblocks=c['nsb'])
    return src, be


def dig_fwhm(c, a, p):
    return c['dig_fwhms'][(a * 2 + p) % 6] if c.get('dig_list') else 32.0


def make_digitizers(c):
    from setigen.voltage import quantization as Q
    if not c.get('dig_list'):
        return Q.RealQuantizer()
    # one digitiser per antenna and polarisation, each with its own target width
    return [[Q.RealQuantizer(target_fwhm=dig_fwhm(c, a, p)) for p in range(c['npol'])] for a in range(c['na'])]


def run_case(case, ctx):
    core.import_setigen()
    obs = core.Obs()
    c = case
    stem_in = ctx.path('in')
    if c.get('earlier_use'):
        # the input path held a different recording before, and the library's readers were used on it
        volt.earlier_use(stem_in, dict(c, directio=(c['directio'] != 'absent' and int(c['directio']) != 0)), nfiles=2)
    blocks_in, z = make_input(c, stem_in)
    spb, obsnchan, nch = z['spb'], z['obsnchan'], c['num_chans']
    dio = c['directio'] != 'absent' and int(c['directio']) != 0
    obs.cls(f'bits={c["nbits"]}', f'pols={c["npol"]}', 'ants>1' if c['na'] > 1 else 'ants=1',
            f'directio={int(dio)}', 'digitize' if c['digitize'] else 'nodigitize')
    if c['aligned']:
        obs.cls('aligned')
    if z['nfiles'] > 1:
        obs.cls('multi_file')
    tag = f'dio{int(dio)}{"_aligned" if c["aligned"] else ""}_bits{c["nbits"]}'
    ok, built = core.call(obs, f'from_data[{tag}]', build, c, stem_in)
    if not ok:
        return obs
    src, be = built
    # ---- construction facts ----------------------------------------------------------------------
    facts = dict(block_size=z['block_size'], num_chans=nch, num_bits=c['nbits'], num_pols=c['npol'],
                 num_antennas=c['na'], input_num_blocks=c['nblocks_in'], blocks_per_file=min(c['bpf_in'], c['nblocks_in']))
    for k, v in facts.items():
        if getattr(be, k) != v:
            obs.fail(f'from_data:{k}', f'{getattr(be, k)} vs {v} ({tag})')
    if obs.violations:
        return obs
    # ---- (1) decode of every block of every file ---------------------------------------------------
    bidx = 0
    for i in range(z['nfiles']):
        fh = open(f'{stem_in}.{i:04d}.raw', 'rb')
        be.input_file_handler = fh
        try:
            for j in range(min(c['bpf_in'], c['nblocks_in'] - i * c['bpf_in'])):
                ok, iv = core.call(obs, f'_read_next_block[{tag}]', be._read_next_block)
                if not ok:
                    return obs
                iv = np.asarray(iv)
                want = blocks_in[bidx].reshape(obsnchan, spb * c['npol'])      # (chan, time*npol + pol)
                if iv.shape != want.shape:
                    obs.fail('decode_shape', f'{iv.shape} vs {want.shape}')
                    return obs
                if not np.array_equal(iv, want):
                    bad = np.argwhere(iv != want)[0].tolist()
                    obs.fail(f'decode:{tag}', f'file {i} block {j}: channel {bad[0]} index {bad[1]}: {iv[tuple(bad)]} vs {want[tuple(bad)]}')
                    return obs
                bidx += 1
        finally:
            fh.close()
            be.input_file_handler = None
    # ---- record ----------------------------------------------------------------------------------------
    req = {'equal': c['nblocks_in'], 'shorter': max(1, c['nblocks_in'] - 1), 'longer': c['nblocks_in'] + 2, 'default': None}[c['requested']]
    if c['requested'] == 'longer':
        obs.cls('requested_longer')
    if c['requested'] == 'shorter' and c['nblocks_in'] > 1:
        obs.cls('requested_shorter')
    n_out = c['nblocks_in'] if req is None else min(req, c['nblocks_in'])
    lazy = be.filterbank[0][0].channelized_stds is None
    if lazy:
        obs.cls('lazy_channelized_stds')
    stds_before = [[None if lazy else np.array(be.filterbank[a][p].channelized_stds, copy=True) for p in range(c['npol'])] for a in range(c['na'])]
    if c.get('dig_list'):
        obs.cls('per_pol_digitisers')
    if c.get('abort_first') and n_out >= 1:
        obs.cls('record_after_aborted_record')
        real = src.get_samples
        st_ = {'n': 0}

        def flaky(n, real=real, st_=st_):
            st_['n'] += 1
            if st_['n'] == c['abort_call']:
                raise KeyboardInterrupt()
            return real(n)
        src.get_samples = flaky
        try:
            be.record(output_file_stem=ctx.path('aborted'), num_blocks=req, length_mode='num_blocks', header_dict={},
                      digitize=c['digitize'], load_template=False, verbose=False)
        except KeyboardInterrupt:
            pass
        src.get_samples = real
        aborted = True
    else:
        aborted = False
    stem_out = ctx.path('out')
    hd = {}
    if c.get('user_cards'):
        hd.update({'TELESCOP': 'MYTEL', 'OBSERVER': 'me'})
    tmpl = bool(c.get('template'))
    if tmpl:
        obs.cls('output_with_template')
    if c.get('omit_cards'):
        obs.cls('input_without_descriptive_cards')
    ok, _ = core.call(obs, 'record', lambda: be.record(output_file_stem=stem_out, num_blocks=req, length_mode='num_blocks',
                                                       header_dict=hd, digitize=c['digitize'], load_template=tmpl, verbose=False))
    if not ok:
        return obs
    for a in range(c['na']):
        for p in range(c['npol']):
            if not lazy and not np.array_equal(np.asarray(be.filterbank[a][p].channelized_stds), stds_before[a][p]):
                obs.fail(f'channelized_stds_changed:{"dig" if c["digitize"] else "nodig"}',
                         f'{stds_before[a][p].tolist()} -> {np.asarray(be.filterbank[a][p].channelized_stds).tolist()}')
                break
    try:
        _, out_blocks = volt.read_payloads(stem_out)
    except ref_guppi.RawFormatError as e:
        obs.fail('unparseable_output', str(e)[:200])
        return obs
    if len(out_blocks) != n_out:
        obs.fail('output_block_count', f'{len(out_blocks)} vs {n_out} (requested {req}, input {c["nblocks_in"]})')
        return obs
    h = out_blocks[0]['header']
    # the reported lengths describe what was recorded (clamped to the input), not what was asked for
    want_samples = n_out * spb * c['B']
    if be.num_blocks != n_out or be.total_obs_num_samples != want_samples:
        obs.fail('accounting:total_obs_num_samples', f'num_blocks {be.num_blocks} total {be.total_obs_num_samples} vs {n_out} blocks = {want_samples} samples (requested {req})')
    if abs(be.obs_length - n_out * spb * z['tbin']) > 1e-12 * n_out * spb * z['tbin'] or \
            abs(float(h.get('SCANLEN', 'nan')) - n_out * spb * z['tbin']) > 1e-9 * n_out * spb * z['tbin']:
        obs.fail('accounting:obs_length_scanlen', f'obs_length {be.obs_length!r} SCANLEN {h.get("SCANLEN")} vs {n_out * spb * z["tbin"]!r} (requested {req}, input {c["nblocks_in"]})')
    try:
        if int(h['PKTSTOP']) - int(h['PKTSTART']) != n_out * spb:
            obs.fail('accounting:pktstop', f'{h["PKTSTOP"]} - {h["PKTSTART"]} vs {n_out * spb}')
    except (KeyError, ValueError) as e:
        obs.fail('accounting:pkt_cards', repr(e))
    for k, v in (('BLOCSIZE', z['block_size']), ('NBITS', c['nbits']), ('NPOL', c['npol']), ('OBSNCHAN', obsnchan)):
        if int(h.get(k, -1)) != v:
            obs.fail(f'output_header:{k}', f'{h.get(k)} vs {v}')
    if int(h.get('NANTS', 1)) != c['na']:
        obs.fail('output_header:NANTS', f'{h.get("NANTS")} vs {c["na"]}')
    out = [ref_guppi.decode(b['data'], obsnchan, c['npol'], c['nbits']) for b in out_blocks]
    if aborted:
        # setup B: identical antenna, same aborted first recording by another backend, then a FRESH backend records
        src_b, be_b1 = build(c, stem_in)
        real_b = src_b.get_samples
        st_b = {'n': 0}

        def flaky_b(n):
            st_b['n'] += 1
            if st_b['n'] == c['abort_call']:
                raise KeyboardInterrupt()
            return real_b(n)
        src_b.get_samples = flaky_b
        try:
            be_b1.record(output_file_stem=ctx.path('aborted_b'), num_blocks=req, length_mode='num_blocks', header_dict={},
                         digitize=c['digitize'], load_template=False, verbose=False)
        except KeyboardInterrupt:
            pass
        src_b.get_samples = real_b
        from setigen.voltage import backend as BE, polyphase_filterbank as P
        fb = P.PolyphaseFilterbank(num_taps=c['taps'], num_branches=c['B'])
        fb.channelized_stds = np.array(be.filterbank[0][0].channelized_stds, copy=True)
        be_b2 = BE.RawVoltageBackend.from_data(stem_in, src_b, digitizer=make_digitizers(c), filterbank=fb,
                                               start_chan=c['start_chan'], num_subblocks=c['nsb'])
        stem_b = ctx.path('out_b')
        ok, _ = core.call(obs, 'record[fresh backend]', lambda: be_b2.record(output_file_stem=stem_b, num_blocks=req, length_mode='num_blocks',
                                                                             header_dict={}, digitize=c['digitize'], load_template=False, verbose=False))
        if ok and c.get('preseed', True) or (ok and (c['na'] > 1 or c['B'] > 8)):
            data_a, _ = volt.read_payloads(stem_out)
            data_b, _ = volt.read_payloads(stem_b)
            if data_a != data_b:
                a_ = np.frombuffer(data_a, dtype=np.int8)
                b_ = np.frombuffer(data_b, dtype=np.int8)
                n_ = int(np.sum(a_ != b_)) if a_.shape == b_.shape else -1
                first = int(np.flatnonzero(a_ != b_)[0]) // z['block_size'] if n_ > 0 else -1
                obs.fail('recording_after_abort_depends_on_backend_history',
                         f'{n_} of {a_.size} bytes differ from a fresh backend on the same antenna state (first in block {first})')
        obs.nontrivial = True
        return obs
    # ---- (3) stationary gain ------------------------------------------------------------------------------
    idx, f_tone, beta = tone_setup(c)
    sign = 1.0 if c['ascending'] else -1.0
    m = c['m']
    nsb_eff = min(c['nsb'], m)
    Wn = -(-m // c['nsb']) if c['nsb'] <= m else 1            # windows per (full) sub-block
    seg = Wn * c['taps']
    if nsb_eff >= 2:
        obs.cls('subblocks>=2')
    n = np.arange(spb)
    amps = []
    for b in range(n_out):
        for a in range(c['na']):
            for p in range(c['npol']):
                d = out[b][a * nch + idx, :, p] - blocks_in[b][a * nch + idx, :, p]
                for s0 in range(0, spb, seg):
                    ss = slice(s0, min(s0 + seg, spb))
                    if ss.stop - ss.start < 32:
                        continue          # fewer than two tone periods: amplitude estimate meaningless
                    # the tone is a complex exponential at beta cycles per spectrum in its channel
                    ph = np.exp(-2j * np.pi * beta * (b * spb + n[ss]))
                    amps.append((abs(np.mean(d[ss] * ph)), abs(np.mean(d[ss] * np.conj(ph))), b, a, p, s0))
    visible = False
    floor = 0.35 if c['nbits'] == 8 else 0.25
    for a in range(c['na']):
        for p in range(c['npol']):
            sel = [x for x in amps if x[3] == a and x[4] == p]
            if len(sel) < 2:
                continue
            arr = np.array([max(x[0], x[1]) for x in sel])
            ref_amp = float(np.median(arr))
            if ref_amp <= floor:
                obs.count('tone_too_weak_to_demodulate')
                continue
            visible = True
            dev = arr / ref_amp
            # the final requantisation rescales by the per-sub-block deviation estimate (tens of samples): +-25% scatter
            # is inherent; the band [0.4, 2.5] separates that from a gain that changes between sub-blocks or blocks
            obs.count('gain_segments', len(arr))
            if dev.min() < 0.4 or dev.max() > 2.5:
                k = int(np.argmax(np.abs(np.log(dev))))
                obs.fail(f'gain_not_stationary:{"dig" if c["digitize"] else "nodig"}',
                         f'tone amplitude {arr[k]:.3f} in block {sel[k][2]} antenna {a} pol {p} spectra from {sel[k][5]} '
                         f'vs median {ref_amp:.3f} over {len(arr)} segments (nsb={c["nsb"]}, m={m}); segments {np.round(arr[:8], 3).tolist()}')
                break
    obs.nontrivial = visible and (nsb_eff >= 2 or n_out >= 2)
    # ---- (4) exact two-stage model, one sub-block per block ---------------------------------------------------
    if c['nsb'] == 1 and not obs.violations:
        obs.cls('exact_model')
        exact_model(obs, c, z, blocks_in, out, n_out, [[np.asarray(be.filterbank[a][p].channelized_stds, dtype=float)
                                                        for p in range(c['npol'])] for a in range(c['na'])])
    return obs


def exact_model(obs, c, z, blocks_in, out, n_out, cstds):
    from scipy.signal import firwin
    from setigen.voltage import antenna as AN, polyphase_filterbank as P
    T, B, nch, s0 = c['taps'], c['B'], c['num_chans'], c['start_chan']
    spb = z['spb']
    fw = 2 * math.sqrt(2 * math.log(2))
    h = firwin(T * B, cutoff=1.0 / B, window='hamming', scale=True) * T * B
    # twin source, one request
    _, f_tone, _ = tone_setup(c)
    if c['na'] > 1:
        tw = AN.MultiAntennaArray(num_antennas=c['na'], sample_rate=c['sr'], fch1=c['fch1'], ascending=c['ascending'],
                                  num_pols=c['npol'], delays=[0] * c['na'], seed=c['seed'])
        streams = [s for a in tw.antennas for s in a.streams]
    else:
        tw = AN.Antenna(sample_rate=c['sr'], fch1=c['fch1'], ascending=c['ascending'], num_pols=c['npol'], seed=c['seed'])
        streams = list(tw.streams)
    for s in streams:
        s.add_constant_signal(f_start=f_tone, drift_rate=0.0, level=c['level'])
    total = (n_out * spb + T) * B
    x_all = np.asarray(tw.get_samples(total))
    lo, hi = -2 ** (c['nbits'] - 1), 2 ** (c['nbits'] - 1) - 1
    ties = 0
    for a in range(c['na']):
        for p in range(c['npol']):
            x = np.asarray(x_all[a][p], dtype=float)
            if c['digitize']:
                # default RealQuantizer: statistics refreshed on every request (one request per block here)
                q = np.zeros_like(x)
                pos = 0
                for b in range(n_out):
                    ln = (spb + (T if b == 0 else 0)) * B
                    seg = x[pos:pos + ln]
                    qq, yy = quantize_ref(seg, seg[:10000], dig_fwhm(c, a, p) / fw, 8)
                    if np.any(np.abs(yy - np.floor(yy) - 0.5) < 1e-9):
                        obs.count('excluded_digitiser_tie_cases')
                        return
                    q[pos:pos + ln] = qq
                    pos += ln
                x = q
            X = reference_fast(x, h, T, B)[:, s0:s0 + nch]
            custom = cstds[a][p] * (dig_fwhm(c, a, p) / fw if c['digitize'] else 1.0)      # the backend's cached unit-noise estimate
            for b in range(n_out):
                V = X[b * spb:(b + 1) * spb]
                inp = blocks_in[b][a * nch:(a + 1) * nch, :, p].T            # (spb, nch)
                res = np.zeros(V.shape, dtype=complex)
                tie = np.zeros(V.shape, dtype=bool)
                for comp in (0, 1):
                    v = V.real if comp == 0 else V.imag
                    iv = inp.real if comp == 0 else inp.imag
                    tmean, tstd = float(np.mean(iv)), float(np.std(iv))
                    # stage 1: synthetic scaled from "custom" deviation to the block's deviation, centred on 0
                    lead = v[:10000]
                    y1 = (tstd / custom[comp]) * (v - float(np.mean(lead)))
                    q1 = np.clip(np.rint(y1), lo, hi)
                    # stage 2: add the input, requantise to the block's statistics
                    v2 = q1 + iv
                    lead2 = v2[:10000]
                    sd2 = 0.0 if float(np.max(lead2)) == float(np.min(lead2)) else float(np.std(lead2))
                    y2 = np.full(v2.shape, tmean) if sd2 == 0 else (tstd / sd2) * (v2 - float(np.mean(lead2))) + tmean
                    q2 = np.clip(np.rint(y2), lo, hi)
                    tie |= (np.abs(y1 - np.floor(y1) - 0.5) < 1e-6) | (np.abs(y2 - np.floor(y2) - 0.5) < 1e-6)
                    res = res + (q2 if comp == 0 else 1j * q2)
                got = out[b][a * nch:(a + 1) * nch, :, p].T
                bad = (got != res) & ~tie
                ties += int(tie.sum())
                if np.any(bad):
                    r, ch = map(int, np.argwhere(bad)[0])
                    obs.fail(f'exact_model:{"dig" if c["digitize"] else "nodig"}:bits{c["nbits"]}',
                             f'{int(bad.sum())} of {bad.size} samples; block {b} antenna {a} pol {p} spectrum {r} channel {ch}: got {got[r, ch]} expected {res[r, ch]}')
                    return
    obs.count('tie_samples', ties)
