"""C01 - the injected signal equals the pointwise product of its four components."""
import numpy as np
from hypothesis import strategies as st

from vp import core, gen, sig as S

PROP_ID = 'C01'
LEVEL = 'exploration'
BUDGET = {'quick': 6000, 'thorough': 150000}
RULE = ('Hypothesis draws a frame geometry (sizes, df, dt, fch1, orientation, construction route) and a signal '
        'description in channel/step units: path in {constant, squared, sine, rfi(seeded), custom callable, '
        'array, list, python float, python int}, time profile in {constant, sine, periodic gaussian (seeded), '
        'custom, array, list, float, int}, frequency profile in {box, gaussian, multiple gaussian, lorentzian, '
        'voigt, sinc2 (crossing|fwhm, trunc on|off), custom}, bandpass in {None, constant, custom, array, float}, '
        'each integrate_* flag, sub-sample counts 1..7 (occasionally 100..400), smearing with 1..9 (occasionally 100..400) sub-steps, occasionally float32 frame data or > 2**16 channels, and a bounding range kind '
        '(none/inside/clipped low/clipped high/wholly below/wholly above/reversed). The returned array is '
        'compared pixel by pixel with an independent evaluator (own closed forms, left-Riemann sub-sample means, '
        'smearing = mean over n evenly spaced centres between path(t_i) and path(t_i+1)). Wrong-length arrays '
        'must raise ValueError and non-function/array/number inputs TypeError. Non-trivial: some pixel exceeds '
        '1e-12*amplitude and (a component is non-constant or an option is on).')
ASSUMPTIONS = ['tolerance per pixel = amplitude * (Lipschitz(profile) * 64 ulp(fmax) + 1e-9)',
               'pixels within 64 ulp of a box edge are excluded and counted',
               'array bandpass is not combined with integrate_f_profile (documented shape is ambiguous there)',
               'randomised families (rfi path, periodic gaussian with random offset/direction) are compared through a same-seed twin',
               'with a bounding range the two boundary columns may be included or not']
REQUIRED_CLASSES = ['asc', 'desc', 'path=array', 'path=int', 'path=rfi', 't=pgauss', 'f=voigt', 'f=sinc2',
                    'smear', 'smear+array_path', 'int_f', 'int_t', 'int_path', 'range=below', 'range=above',
                    'range=inside', 'flags+range', 'negative_facet', 'special=wide', 'special=many_subsamples', 'special=float32', 'second_injection_on_moved_axis', 'second_injection_on_gapped_axis']


@st.composite
def strategy_(draw, tier):
    g = draw(gen.geometry(max_fchans=256 if tier == 'thorough' else 48, max_tchans=12))
    sig = dict(path=draw(S.path_strategy()), t=draw(S.t_strategy()), f=draw(S.f_strategy()), bp=draw(S.bp_strategy()))
    opts = draw(S.opts_strategy())
    special = draw(st.sampled_from([None] * 10 + ['wide', 'many_subsamples', 'many_subsamples', 'float32', 'float32']))
    if special == 'wide':
        # beyond 2**16 channels (real products are 2**20 wide); keep the work small otherwise
        g['fchans'] = draw(st.sampled_from([65536 + 500, 70001, 2 ** 17 + 3]))
        g['tchans'] = draw(st.integers(1, 2))
        g['fch1'] = min(max(g['fch1'], 4.0 * g['fchans'] * g['df'] + 1.0), g['df'] * 2.0 ** 40)
        opts.update(t_subsamples=min(opts['t_subsamples'], 2), f_subsamples=min(opts['f_subsamples'], 2),
                    smearing_subsamples=min(opts['smearing_subsamples'], 2))
    elif special == 'many_subsamples':
        # sub-sample counts are unbounded in the API (default 10): hundreds of copies on a small frame
        g['fchans'] = min(g['fchans'], 12)
        g['tchans'] = min(g['tchans'], 4)
        which = draw(st.sampled_from(['smear', 't', 'f']))
        big = draw(st.integers(100, 400))
        if which == 'smear':
            opts.update(doppler_smearing=True, smearing_subsamples=big)
        elif which == 't':
            opts.update(integrate_t_profile=True, integrate_path=True, t_subsamples=big)
        else:
            opts.update(integrate_f_profile=True, f_subsamples=big)
    rng = draw(S.range_strategy())
    neg = draw(st.sampled_from([None] * 9 + ['path_len', 't_len', 'bp_len', 'path_type', 't_type', 'bp_type']))
    return dict(g=g, sig=sig, opts=opts, range=rng, neg=neg, special=special,
                reshift=draw(st.sampled_from([None, None, None, 3.5, 1000.0, -2.0, 'gap', 'gap'])))


def strategy(tier):
    return strategy_(tier)


def boundary_cols(ax, rng):
    """(inside mask, outside mask) over columns for a bounding range (lo, hi)."""
    lo, hi = rng
    eps = max(1e-6 * ax.df, 16 * gen.ulp(ax.fs[-1]))      # the axis itself is only known to an ulp of fmax
    inside = (ax.fs >= lo + ax.df / 2 + eps) & (ax.fs <= hi - ax.df / 2 - eps)
    outside = (ax.fs < lo - ax.df / 2 - eps) | (ax.fs > hi + ax.df / 2 + eps)
    if hi < lo:
        inside[:] = False
        outside[:] = True
    return inside, outside


def run_case(case, ctx):
    stg = core.import_setigen()
    obs = core.Obs()
    g, sg, opts, rk = case['g'], case['sig'], dict(case['opts']), case['range']
    special = case.get('special')
    if special == 'float32':
        # frames holding single-precision data (as loaded from files): the returned signal is still the exact product
        ok, fr = core.call(obs, 'construct', gen.make_frame, stg, dict(g, route='data'),
                           np.zeros((g['tchans'], g['fchans']), dtype=np.float32))
    else:
        ok, fr = core.call(obs, 'construct', gen.make_frame, stg, g)
    if not ok:
        return obs
    if special:
        obs.cls('special=' + special)
    ax = S.Axes(fr.fs, fr.ts, fr.df, fr.dt)
    smear = opts['doppler_smearing']
    if sg['bp']['kind'] == 'array' and (opts['integrate_f_profile'] or rk['kind'] != 'none'):
        # an array bandpass has one value per (restricted) channel; only the plain full-band form is unambiguous
        opts['integrate_f_profile'] = False
        rk = dict(rk, kind='none')
    rng = S.range_of(ax, rk)
    obs.cls('asc' if g['ascending'] else 'desc', 'path=' + sg['path']['kind'], 't=' + sg['t']['kind'],
            'f=' + sg['f']['kind'], 'bp=' + sg['bp']['kind'], 'range=' + rk['kind'])
    flags = []
    if smear:
        flags.append('smear')
        if sg['path']['kind'] == 'array':
            obs.cls('smear+array_path')
    if opts['integrate_f_profile']:
        flags.append('int_f')
    if opts['integrate_t_profile'] and sg['t']['kind'] in ('constant', 'sine', 'pgauss', 'custom'):
        flags.append('int_t')
    if opts['integrate_path'] and sg['path']['kind'] in ('constant', 'squared', 'sine', 'rfi', 'custom'):
        flags.append('int_path')
    obs.cls(*flags)
    if flags and rk['kind'] != 'none':
        obs.cls('flags+range')

    pos, kw = S.call_options(opts, rng)
    obs.cls('call_style=' + opts.get('call_style', 'explicit'))

    # ---- negative facet: malformed component inputs must be rejected cleanly --------------
    neg = case['neg']
    if neg is not None:
        obs.cls('negative_facet')
        path = S.stg_path(stg, ax, sg['path'], smear)
        tprof = S.stg_t(stg, ax, sg['t'])
        fprof = S.stg_f(stg, ax, sg['f'])
        bp = S.stg_bp(stg, ax, sg['bp'])
        kwx = S.call_options(dict(opts, call_style='explicit'), rng)[1]
        kw2 = dict(kwx, bounding_f_range=None)
        if neg == 'path_len':
            bad = np.full(ax.T + (3 if smear else 2), ax.f_of(0.5))
            core.expect_raises(obs, 'path_wrong_length', (ValueError,), fr.add_signal, bad, tprof, fprof, bp, **kw2)
        elif neg == 't_len':
            core.expect_raises(obs, 't_wrong_length', (ValueError,), fr.add_signal, path, np.ones(ax.T + 1), fprof, bp, **kw2)
        elif neg == 'bp_len':
            kw3 = dict(kw2, integrate_f_profile=False)
            core.expect_raises(obs, 'bp_wrong_length', (ValueError,), fr.add_signal, path, tprof, fprof, np.ones(ax.N + 1), **kw3)
        elif neg == 'path_type':
            core.expect_raises(obs, 'path_wrong_type', (TypeError,), fr.add_signal, 'not a path', tprof, fprof, bp, **kw2)
        elif neg == 't_type':
            core.expect_raises(obs, 't_wrong_type', (TypeError,), fr.add_signal, path, {'level': 1}, fprof, bp, **kw2)
        else:
            core.expect_raises(obs, 'bp_wrong_type', (TypeError,), fr.add_signal, path, tprof, fprof, 'flat', **kw2)
        if np.any(fr.data != 0):
            obs.fail('rejected_input_modified_frame', neg)
        return obs

    # ---- positive facet -------------------------------------------------------------------
    path = S.stg_path(stg, ax, sg['path'], smear)
    tprof = S.stg_t(stg, ax, sg['t'])
    fprof = S.stg_f(stg, ax, sg['f'])
    bp = S.stg_bp(stg, ax, sg['bp'])
    tag = 'add_signal' + ('[smear]' if smear else '') + (f'[range={rk["kind"]}]' if rk['kind'] in ('below', 'above', 'reversed') else '')
    ok, got = core.call(obs, tag, fr.add_signal, path, tprof, fprof, bp, *pos, **kw)
    if not ok:
        return obs
    got = np.asarray(got, dtype=float)
    if got.shape != (ax.T, ax.N):
        obs.fail('shape', f'{got.shape} vs {(ax.T, ax.N)}')
        return obs
    exp, tol, excl = S.reference(stg, ax, sg, opts)
    if rng is not None:
        inside, outside = boundary_cols(ax, rng)
        # outside the range: nothing
        if np.any(got[:, outside] != 0):
            j = int(np.flatnonzero(np.any(got != 0, axis=0) & outside)[0])
            obs.fail(f'outside_range_nonzero:{rk["kind"]}', f'column {j} of {ax.N}')
        cmp_cols = inside
        edge = ~(inside | outside)
        for j in np.flatnonzero(edge):
            col_ok = np.all((np.abs(got[:, j] - exp[:, j]) <= tol[:, j]) | excl[:, j]) or np.all(got[:, j] == 0)
            if not col_ok:
                obs.fail('boundary_column', f'column {j}')
                break
    else:
        cmp_cols = np.ones(ax.N, dtype=bool)
    diff = np.abs(got - exp)
    bad = (diff > tol) & ~excl & cmp_cols[None, :]
    obs.count('excluded_edge_pixels', int(np.sum(excl)))
    obs.count('pixels', int(cmp_cols.sum()) * ax.T)
    if np.any(bad):
        i, j = map(int, np.argwhere(bad)[0])
        fl = '+'.join(flags) or 'plain'
        obs.fail(f'value:{fl}', f'pixel ({i},{j}) got {got[i, j]!r} expected {exp[i, j]!r} tol {float(tol[i, j]):.3g}; '
                 f'{int(bad.sum())} of {bad.size} pixels; path={sg["path"]["kind"]} t={sg["t"]["kind"]} f={sg["f"]["kind"]} bp={sg["bp"]["kind"]}')
    if not np.array_equal(fr.data, got.astype(fr.data.dtype)):
        obs.fail('frame_data_not_signal', str(fr.data.dtype))
    # t_i is the frame's OWN time axis: after the user moves it, a second injection must follow the new axis
    if case.get('reshift') is not None and rng is None and sg['path']['kind'] != 'array' and sg['t']['kind'] != 'array' and not obs.violations:
        obs.cls('second_injection_on_moved_axis')
        if case['reshift'] == 'gap':
            # a user-assigned axis that is not uniformly spaced (two scans with a slew gap); the sub-sample integration grid is only
            # defined for a contiguous axis, so those cases move the axis uniformly
            new_ts = np.asarray(fr.ts, dtype=float) + 3.5 * ax.dt
            if ax.T >= 2 and not opts['integrate_path'] and not opts['integrate_t_profile']:
                new_ts[ax.T // 2:] += 7.5 * ax.dt
                obs.cls('second_injection_on_gapped_axis')
            fr.ts = new_ts
        else:
            fr.ts = np.asarray(fr.ts) + case['reshift'] * ax.dt
        before2 = fr.data.copy()
        ok, got2 = core.call(obs, 'add_signal[second, moved ts]', fr.add_signal, S.stg_path(stg, ax, sg['path'], smear),
                             S.stg_t(stg, ax, sg['t']), S.stg_f(stg, ax, sg['f']), S.stg_bp(stg, ax, sg['bp']), *pos, **kw)
        if ok:
            exp2, tol2, excl2 = S.reference(stg, ax, sg, opts, ts_eval=np.asarray(fr.ts))
            bad2 = (np.abs(np.asarray(got2) - exp2) > tol2) & ~excl2
            if np.any(bad2):
                i, j = map(int, np.argwhere(bad2)[0])
                obs.fail(f'value_after_axis_moved:{"+".join(flags) or "plain"}', f'pixel ({i},{j}) got {np.asarray(got2)[i, j]!r} expected {exp2[i, j]!r} '
                         f'(ts moved by {case["reshift"]} steps); path={sg["path"]["kind"]} t={sg["t"]["kind"]}')
    amp = S.amplitude_bound(ax, sg)
    visible = bool(np.any(np.abs(exp[:, cmp_cols]) > 1e-12 * amp))
    nonconst = (sg['path']['kind'] not in ('float', 'int') or sg['t']['kind'] not in ('constant', 'float', 'int')
                or sg['bp']['kind'] in ('custom', 'array'))
    obs.nontrivial = visible and (nonconst or bool(flags))
    if visible:
        obs.cls('visible')
    return obs
