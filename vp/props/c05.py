"""C05 - frame axes and frequency/index conversion are exact and orientation-independent."""
import math
from fractions import Fraction

import numpy as np
from hypothesis import strategies as st

from vp import core, gen

PROP_ID = 'C05'
LEVEL = 'exploration'
BUDGET = {'quick': 9000, 'thorough': 100000}
RULE = ('Hypothesis draws (fchans,tchans,df,dt,fch1,orientation,t_start,construction route,'
        'unit spelling) with df >= 4096 ulp(fch1), plus per-case offsets delta in (-0.49,0.49), '
        'out-of-band channel numbers and a drifting Gaussian signal given in channel units; '
        'every channel index is round-tripped (enumerated, not sampled). Non-trivial: fchans>=2 '
        'and (df,dt) not the library defaults; distinct by hash of the case.')
ASSUMPTIONS = ['closed forms are evaluated in double precision with a 64-ulp(fmax) tolerance on '
               'frequencies and 4 ulp on times', 'exact half-channel ties are not generated']
REQUIRED_CLASSES = ['sibling_frame_first', 'route=sizes', 'route=shape', 'route=data', 'route=from_data', 'route=units',
                    'route=backend', 'asc', 'desc', 'product_sized']


@st.composite
def strategy_(draw, tier):
    big = tier == 'thorough'
    g = draw(gen.geometry(max_fchans=512 if big else 96))
    if draw(st.integers(0, 19)) == 0:
        # product-sized frames: 2**16 .. 2**20 channels (axes and conversions only, no injection)
        g['fchans'] = draw(st.sampled_from([2 ** 16, 2 ** 16 + 1, 2 ** 20, 2 ** 20 - 3]))
        g['tchans'] = draw(st.integers(1, 2))
        g['fch1'] = min(max(g['fch1'], 4.0 * g['fchans'] * g['df'] + 1.0), g['df'] * 2.0 ** 40)
        if g['fch1'] < 4.0 * g['fchans'] * g['df'] + 1.0:      # cannot satisfy both: shrink df
            g['df'] = 1.0
            g['fch1'] = 6e9
    deltas = draw(st.lists(st.tuples(st.integers(-5, g['fchans'] + 5), gen.finite(-0.49, 0.49)),
                           min_size=1, max_size=6))
    sig = dict(start=draw(gen.finite(-0.2, 1.2)), drift=draw(gen.finite(-3, 3)),
               width=draw(gen.finite(0.3, 6)))
    pair = draw(st.tuples(st.integers(-3, g['fchans'] + 3), st.integers(-3, g['fchans'] + 3)))
    backend = None
    if draw(st.integers(0, 5)) == 0:
        backend = dict(sample_rate=draw(st.sampled_from([3e9, 2.048e9, 187.5e6, 1e6, 3.3e9])),
                       num_branches=draw(st.sampled_from([8, 64, 1024, 4096])),
                       fftlength=draw(st.sampled_from([1, 16, 1024, 1048576])),
                       int_factor=draw(st.integers(1, 60)),
                       frac=draw(gen.finite(0.05, 0.95)))
    return dict(g=g, deltas=[list(d) for d in deltas], sig=sig, pair=list(pair), backend=backend,
                sibling=draw(st.sampled_from([None, None, 'opposite', 'opposite', 'wider', 'longer'])))


def strategy(tier):
    return strategy_(tier)


def _close(a, b, tol):
    return abs(a - b) <= tol


def run_case(case, ctx):
    stg = core.import_setigen()
    from astropy import units as u
    obs = core.Obs()
    g = dict(case['g'])
    be = case.get('backend')
    if be is not None:
        # backend route: geometry follows from the backend parameters (exact rationals)
        chan_bw = Fraction(be['sample_rate']) / be['num_branches']
        df_q = chan_bw / be['fftlength']
        dt_q = Fraction(be['int_factor']) / df_q
        g['df'], g['dt'] = float(df_q), float(dt_q)
        g['fch1'] = max(g['fch1'], 4.0 * g['fchans'] * g['df'] + 1.0)
        obs_length = float((g['tchans'] + Fraction(be['frac'])) * dt_q)
        ok, fr = core.call(obs, 'from_backend_params', stg.Frame.from_backend_params,
                           fchans=g['fchans'], obs_length=obs_length,
                           sample_rate=be['sample_rate'], num_branches=be['num_branches'],
                           fftlength=be['fftlength'], int_factor=be['int_factor'],
                           fch1=g['fch1'], ascending=g['ascending'])
        obs.cls('route=backend')
        if ok:
            ok2, pd = core.call(obs, 'params_from_backend', stg.params_from_backend,
                                obs_length=obs_length, sample_rate=be['sample_rate'],
                                num_branches=be['num_branches'], fftlength=be['fftlength'],
                                int_factor=be['int_factor'])
            if ok2:
                if pd['tchans'] != g['tchans']:
                    obs.fail('backend_tchans', f"{pd['tchans']} != {g['tchans']}")
                if not _close(pd['df'], g['df'], 4 * gen.ulp(g['df'])):
                    obs.fail('backend_df', f"{pd['df']} vs {g['df']}")
                if not _close(pd['dt'], g['dt'], 4 * gen.ulp(g['dt'])):
                    obs.fail('backend_dt', f"{pd['dt']} vs {g['dt']}")
    else:
        sib = case.get('sibling')
        if sib:
            # a frame with the very same size, resolution and fch1 existed earlier in the session: of the opposite
            # orientation, or with another channel / integration count
            obs.cls('sibling_frame_first')
            g0 = dict(g, route='sizes')
            if sib == 'opposite':
                g0['ascending'] = not g['ascending']
            elif sib == 'wider':
                g0['fchans'] = g['fchans'] + 3
            else:
                g0['tchans'] = g['tchans'] + 2
            core.call(obs, 'construct_sibling', gen.make_frame, stg, g0)
        ok, fr = core.call(obs, 'construct', gen.make_frame, stg, g)
        obs.cls('route=' + g['route'])
    if not ok:
        return obs
    obs.cls('asc' if g['ascending'] else 'desc')
    N, T = g['fchans'], g['tchans']
    obs.nontrivial = (N >= 2 and not (g['df'] == gen.DEFAULT_DF and g['dt'] == gen.DEFAULT_DT))

    # resolutions as requested (unit conversion may cost an ulp or two)
    if not _close(fr.df, g['df'], 4 * gen.ulp(g['df'])):
        obs.fail('df_value', f'{fr.df!r} vs {g["df"]!r}')
    if not _close(fr.dt, g['dt'], 4 * gen.ulp(g['dt'])):
        obs.fail('dt_value', f'{fr.dt!r} vs {g["dt"]!r}')
    if not _close(fr.fch1, g['fch1'], 4 * gen.ulp(g['fch1'])):
        obs.fail('fch1_value', f'{fr.fch1!r} vs {g["fch1"]!r}')
    if fr.shape != (T, N) or fr.data.shape != (T, N) or fr.fchans != N or fr.tchans != T:
        obs.fail('shape', f'{fr.shape} {fr.data.shape} vs {(T, N)}')
        return obs
    if bool(fr.ascending) != g['ascending']:
        obs.fail('orientation_flag', fr.ascending)

    df, dt, fch1 = float(fr.df), float(fr.dt), float(fr.fch1)
    fmax_abs = fch1 + N * df
    ftol = 64 * gen.ulp(fmax_abs)
    fs = np.asarray(fr.fs, dtype=float)
    if fs.shape != (N,):
        obs.fail('fs_length', fs.shape)
        return obs
    # fch1 is fmin (ascending) or fmax (descending)
    if g['ascending']:
        fmin_ref = fch1
        if fr.fmin != fch1:
            obs.fail('fmin_is_fch1', f'{fr.fmin!r} {fch1!r}')
    else:
        fmin_ref = fch1 - (N - 1) * df
        if fr.fmax != fch1:
            obs.fail('fmax_is_fch1', f'{fr.fmax!r} {fch1!r}')
    ref = fmin_ref + np.arange(N) * df
    err = np.max(np.abs(fs - ref))
    if err > ftol:
        obs.fail('fs_grid', f'max err {err} tol {ftol}')
    if N > 1 and not np.all(np.diff(fs) > 0):
        obs.fail('fs_increasing', '')
    if abs(fr.fmin - fs[0]) > ftol or abs(fr.fmax - fs[-1]) > ftol:
        obs.fail('fmin_fmax', f'{fr.fmin} {fs[0]} {fr.fmax} {fs[-1]}')
    if abs(fr.fmid - (ref[0] + ref[-1]) / 2) > ftol:
        obs.fail('fmid', fr.fmid)

    ts = np.asarray(fr.ts, dtype=float)
    if ts.shape != (T,):
        obs.fail('ts_length', ts.shape)
        return obs
    tref = np.arange(T) * dt
    if np.max(np.abs(ts - tref)) > 4 * gen.ulp(T * dt):
        obs.fail('ts_grid', f'{np.max(np.abs(ts - tref))}')
    te = np.asarray(fr.ts_ext, dtype=float)
    if te.shape != (T + 1,) or np.max(np.abs(te - np.arange(T + 1) * dt)) > 4 * gen.ulp((T + 1) * dt):
        obs.fail('ts_ext', f'{te.shape} {te[-1] if len(te) else None} vs {T * dt}')
    if abs(fr.obs_length - T * dt) > 4 * gen.ulp(T * dt):
        obs.fail('obs_length', fr.obs_length)
    if abs(fr.t_stop - (fr.t_start + T * dt)) > 4 * gen.ulp(abs(fr.t_start) + T * dt):
        obs.fail('t_stop', fr.t_stop)
    if be is None and fr.t_start != g['t_start']:
        obs.fail('t_start', f'{fr.t_start} vs {g["t_start"]}')
    if abs(fr.unit_drift_rate - df / dt) > 4 * gen.ulp(df / dt):
        obs.fail('unit_drift_rate', fr.unit_drift_rate)
    a, b = case['pair']
    dr = (b - a) * df / (T * dt)
    ok, got = core.call(obs, 'get_drift_rate', fr.get_drift_rate, a, b)
    if ok and abs(got - dr) > 8 * gen.ulp(dr) + 1e-300:
        obs.fail('get_drift_rate', f'{got} vs {dr}')

    # index -> frequency -> index on every channel (enumerated)
    idx = np.arange(N)
    ok, f_all = core.call(obs, 'get_frequency', fr.get_frequency, idx)
    if ok:
        if np.shape(f_all) != idx.shape:
            obs.fail('get_frequency_shape', f'{np.shape(f_all)} for {idx.shape} indices')
        elif np.max(np.abs(np.asarray(f_all) - ref)) > ftol:
            obs.fail('get_frequency', f'{np.max(np.abs(np.asarray(f_all) - ref))}')
        ok, back = core.call(obs, 'get_index', fr.get_index, f_all)
        if ok and np.shape(back) != idx.shape:
            obs.fail('roundtrip_index_shape', f'{np.shape(back)} for {idx.shape} frequencies')
        elif ok and not np.array_equal(np.asarray(back), idx):
            bad = int(np.flatnonzero(np.asarray(back) != idx)[0])
            obs.fail('roundtrip_index', f'channel {bad} -> {np.asarray(back)[bad]}')
    # scalar calls, plain and Quantity, nearest channel incl. out-of-band
    for j, d in case['deltas']:
        f = fmin_ref + (j + d) * df
        # distance (in channels) of the double actually passed from the nearest tie
        x = (f - fs[0]) / df
        if abs(abs(x - round(x)) - 0.5) < 1e-3:
            obs.count('excluded_ties')
            continue
        ok, got = core.call(obs, 'get_index_scalar', fr.get_index, f)
        if ok and int(got) != j:
            obs.fail('nearest_channel', f'f=fmin+({j}+{d})df -> {int(got)}')
        ok, got = core.call(obs, 'get_index_quantity', fr.get_index, (f * 1e-6) * u.MHz)
        # MHz round trip costs ~1 ulp(f); harmless away from ties (df >= 4096 ulp)
        if ok and int(got) != j:
            obs.fail('nearest_channel_quantity', f'f=fmin+({j}+{d})df -> {int(got)}')
        if 0 <= j < N:
            ok, got = core.call(obs, 'get_frequency_scalar', fr.get_frequency, j)
            if ok and abs(float(got) - ref[j]) > ftol:
                obs.fail('get_frequency_scalar', f'{j}: {got} vs {ref[j]}')

    # twin frame of opposite orientation describing the same band
    g2 = dict(g, route='sizes', ascending=not g['ascending'], df=df, dt=dt)
    g2['fch1'] = float(fs[0]) if g2['ascending'] else float(fs[-1])
    ok, tw = core.call(obs, 'construct_twin', gen.make_frame, stg, g2)
    if ok:
        if np.asarray(tw.fs).shape != fs.shape or np.max(np.abs(np.asarray(tw.fs) - fs)) > ftol:
            obs.fail('twin_fs', f'{np.max(np.abs(np.asarray(tw.fs) - fs)) if np.asarray(tw.fs).shape == fs.shape else tw.fs.shape}')
        elif not np.array_equal(np.asarray(tw.ts), ts):
            obs.fail('twin_ts', '')
        elif N > 4096:
            obs.cls('product_sized')
        else:
            s = case['sig']
            width = s['width'] * df
            f0 = ref[0] + s['start'] * (N - 1) * df
            drift = s['drift'] * df / dt

            def inject(frame):
                return frame.add_signal(stg.constant_path(f_start=f0, drift_rate=drift),
                                        stg.constant_t_profile(level=1.0),
                                        stg.gaussian_f_profile(width=width),
                                        stg.constant_bp_profile(level=1.0))
            ok1, s1 = core.call(obs, 'inject', inject, fr)
            ok2, s2 = core.call(obs, 'inject_twin', inject, tw)
            if ok1 and ok2:
                # Gaussian FWHM w: |d/df| <= 1.43/w ; axes may differ by ftol
                tol = 1.5 / width * (2 * ftol) + 1e-12
                e = float(np.max(np.abs(s1 - s2)))
                if e > tol:
                    obs.fail('twin_injection', f'max diff {e} tol {tol}')
                if not np.array_equal(fr.data, s1) or not np.array_equal(tw.data, s2):
                    obs.fail('twin_data_is_signal', '')
                if float(np.max(s1)) > 1e-6:
                    obs.cls('twin_signal_visible')
    return obs
