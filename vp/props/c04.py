"""C04 - recorded files are well-formed GUPPI RAW and all readers agree on framing."""
import itertools
import math
import os
from fractions import Fraction

import numpy as np
from hypothesis import strategies as st

from vp import core, gen, volt, ref_guppi

PROP_ID = 'C04'
LEVEL = 'exploration'
BUDGET = {'quick': 4000, 'thorough': 40000}
RULE = ('Hypothesis draws a small backend configuration (1-2 pols, 8/4 bit, single antenna or array, 1..45 blocks, '
        'blocks_per_file 1..45) and a header dictionary: 0..70 user cards (keys [A-Z0-9_]{1,8}; int, float and '
        'quote-free string values that fit a card) whose count is steered so that every header length modulo 32 '
        'cards occurs (lengths = 0, 1, 31 mod 32 targeted), template on/off, DIRECTIO absent/0/1/"1", optional user '
        'PKTIDX, and bogus values for the configuration-owned keys. Every file is parsed strictly by an independent '
        'GUPPI reader (card grid, END, zero padding to 512 iff DIRECTIO!=0 and none when aligned, BLOCSIZE payload, '
        'file k = blocks [k*bpf, (k+1)*bpf), PKTIDX step); configuration-owned cards are recomputed with rationals; '
        'user cards must survive; read_header / get_blocks_in_file / get_blocks_per_file / get_total_blocks / '
        'get_raw_params must agree with the parser under every permutation (<=4 files) or 6 sampled permutations of '
        'the directory listing (glob patched inside the harness). Non-trivial: >1 block and a non-template header.')
ASSUMPTIONS = ['padding is header-relative as the property states', 'empty strings, quotes and keys longer than 8 characters are not valid cards and not generated',
               'float cards are compared after float()', 'listing order is injected by replacing glob in raw_utils inside the harness process']
REQUIRED_CLASSES = ['path_used_earlier', 'hdrmod=0', 'hdrmod=1', 'hdrmod=31', 'directio=absent', 'directio=0', 'directio=1', 'template',
                    'notemplate', 'files=1', 'files>1', 'last_partial', 'listing_unsorted', 'bogus_owned', 'array', 'single', 'user_pktstart', 'second_recording_same_backend', 'key_starts_with_END', 'blimpy_guppiraw', 'keys_differ_in_case_only', 'stem_with_glob_characters']

OWNED = ['NBITS', 'NPOL', 'OBSNCHAN', 'NANTS', 'BLOCSIZE', 'TBIN', 'CHAN_BW', 'OBSBW', 'OBSFREQ', 'SCANLEN']
RESERVED = set(OWNED) | {'END', 'PKTIDX', 'PKTSTART', 'PKTSTOP', 'DIRECTIO', 'TELESCOP', 'OBSERVER', 'SRC_NAME'}
KEYCHARS = 'ABCDEFGHIJKLMNOPQRSTUVWXYZ0123456789_'
STRCHARS = 'ABCDEFGHIJKLMNOPQRSTUVWXYZabcdefghijklmnopqrstuvwxyz0123456789 _-+.:/()[]=,;#@!%&*<>?'


def template_keys():
    p = os.path.join(core.REPO, 'setigen', 'voltage', 'assets', 'header_template.txt')
    keys = []
    with open(p) as f:
        for line in f:
            k = line[:8].strip()
            if k and k != 'END':
                keys.append(k)
    return keys


@st.composite
def strategy_(draw, tier):
    c = draw(volt.volt_config(max_blocks=7, max_m=3, branches=(8, 16), tones=(0, 0), max_antennas=2))
    c['nblocks'] = draw(st.one_of(st.integers(1, 7), st.integers(1, 45)))
    c['bpf'] = draw(st.one_of(st.integers(1, 7), st.integers(1, 45)))
    if draw(st.integers(0, 4)) == 0:
        # one full file of many blocks and a partially filled last one (block counts derived from file sizes must stay exact)
        c['bpf'] = draw(st.integers(20, 49))
        k_last = draw(st.integers(1, c['bpf'] - 1))
        # half of these at pairs where the ratio k/bpf does not survive a round trip through double precision
        hazard = [(k, b) for b in range(20, 50) for k in range(1, b) if int(k / b * b) != k or int(k * (1.0 / b) * b) != k]
        if draw(st.booleans()):
            k_last, c['bpf'] = draw(st.sampled_from(hazard))
        c['nblocks'] = c['bpf'] + k_last
    c['num_chans'] = min(c['num_chans'], 3)
    c['start_chan'] = min(c['start_chan'], c['B'] // 2 - c['num_chans'])
    c['noise_std'] = 1.0
    template = draw(st.booleans())
    directio = draw(st.sampled_from(['absent', 'absent', 0, 1, 1, '1']))
    value = st.one_of(
        st.integers(-10 ** 9, 10 ** 9).map(lambda v: ['int', v]),
        gen.finite(-1e6, 1e6).map(lambda v: ['float', v]),
        st.text(alphabet=STRCHARS, min_size=1, max_size=60).map(lambda s: s.strip() or 'x').map(lambda s: ['str', s]),
        st.just(['str', '']))          # an empty string is a string that fits a card
    n_user = draw(st.integers(0, 70))
    keys = draw(st.lists(st.one_of(st.text(alphabet=KEYCHARS, min_size=1, max_size=8),
                                   st.text(alphabet=KEYCHARS + 'abcdefghijklmnopqrstuvwxyz', min_size=1, max_size=8))
                         .filter(lambda k: k.upper() not in RESERVED),
                         min_size=n_user, max_size=n_user, unique=True))
    cards = [[k] + draw(value) for k in keys]
    # keys are case-sensitive: a card may differ from another one only in letter case
    for k in draw(st.lists(st.sampled_from(keys), max_size=2, unique=True)) if keys else []:
        twin = k.lower() if k != k.lower() else k.upper()
        if twin != k and twin not in keys:
            cards.insert(draw(st.integers(0, len(cards))), [twin] + draw(value))
            keys = keys + [twin]
    # keys that merely begin with the letters END are ordinary cards
    for k in draw(st.lists(st.sampled_from(['ENDFREQ', 'ENDMJD', 'END_X', 'ENDX', 'END1']), max_size=2, unique=True)):
        if k not in keys:
            cards.insert(draw(st.integers(0, len(cards))), [k] + draw(value))
    bogus = draw(st.lists(st.sampled_from(OWNED), max_size=4, unique=True))
    return dict(c=c, template=template, directio=directio, cards=cards, bogus=bogus,
                pktidx=draw(st.sampled_from([None, None, 0, 1000, 123456])),
                pktstart=draw(st.sampled_from([None, None, None, 0, 3, 999])),
                again=draw(st.sampled_from([None, 1, 2, 3, 5, 7])),
                target_mod=draw(st.sampled_from([None, None, 0, 1, 31, 16])),
                perm_seed=draw(st.integers(0, 10 ** 6)), earlier_use=draw(st.sampled_from([False, False, True])),
                stem_chars=draw(st.sampled_from([None, None, None, 'brackets', 'star', 'question'])))


def strategy(tier):
    return strategy_(tier)


def expected_owned(c, sz):
    chan_bw = Fraction(c['sr']) / c['B'] * (1 if c['ascending'] else -1)
    tbin = Fraction(c['B']) / Fraction(c['sr'])
    centre = (c['start_chan'] + Fraction(c['num_chans'] - 1, 2)) * chan_bw + Fraction(c['fch1'])
    return dict(NBITS=c['nbits'], NPOL=c['npol'], OBSNCHAN=c['num_chans'] * c['na'], BLOCSIZE=sz['block_size'],
                TBIN=float(tbin), CHAN_BW=float(chan_bw / 10 ** 6), OBSBW=float(chan_bw * c['num_chans'] / 10 ** 6),
                OBSFREQ=float(centre / 10 ** 6), SCANLEN=float(c['nblocks'] * sz['spb'] * tbin),
                NANTS=c['na'])


def run_case(case, ctx):
    core.import_setigen()
    from setigen.voltage import raw_utils
    obs = core.Obs()
    c = case['c']
    sz = volt.sizes(c)
    tkeys = template_keys() if case['template'] else []
    # ---- user header -----------------------------------------------------------------------
    hd = {}
    user = {}
    for k, typ, v in case['cards']:
        if k in tkeys:
            continue
        if k.startswith('END'):
            obs.cls('key_starts_with_END')
        hd[k] = v
        user[k] = (typ, v)
    if len({k.upper() for k in hd}) < len(hd):
        obs.cls('keys_differ_in_case_only')
    if case['directio'] != 'absent':
        hd['DIRECTIO'] = case['directio']
    if case['pktidx'] is not None:
        hd['PKTIDX'] = case['pktidx']
        if case.get('pktstart') is not None:
            hd['PKTSTART'] = case['pktstart']        # any start <= the first index; need not lie on the block grid
            obs.cls('user_pktstart')
    for k in case['bogus']:
        hd[k] = {'TBIN': 1.0, 'CHAN_BW': 99.5, 'OBSBW': -1.25, 'OBSFREQ': 1.0, 'SCANLEN': 12345.0}.get(k, 7)
    if case['bogus']:
        obs.cls('bogus_owned')
    # steer the header length (cards incl. END) modulo 32 by adding filler cards
    def final_cards(n_extra):
        keys = set(hd) | set(tkeys) | {'TELESCOP', 'OBSERVER', 'SRC_NAME', 'NBITS', 'CHAN_BW', 'NPOL', 'BLOCSIZE',
                                        'SCANLEN', 'TBIN', 'OBSNCHAN', 'OBSBW', 'OBSFREQ', 'PKTIDX', 'PKTSTART', 'PKTSTOP'}
        if c['array']:
            keys.add('NANTS')
        return len(keys) + n_extra + 1
    if case['target_mod'] is not None:
        need = (case['target_mod'] - final_cards(0)) % 32
        for i in range(need):
            k = f'ZZF{i:03d}'
            hd[k] = i
            user[k] = ('int', i)
    ncards = final_cards(0)
    obs.cls(f'hdrmod={ncards % 32}' if ncards % 32 in (0, 1, 31) else 'hdrmod=other',
            'template' if case['template'] else 'notemplate', 'array' if c['array'] else 'single')
    # effective DIRECTIO: user value, else the template's (1)
    if case['directio'] != 'absent':
        dio = int(case['directio']) != 0
        obs.cls(f'directio={int(case["directio"])}')
    else:
        dio = bool(case['template'])
        obs.cls('directio=absent')
    # file stems are ordinary paths: brackets and other glob metacharacters may occur in them
    stem = ctx.path({None: 'rec', 'brackets': 'rec[1]', 'star': 'rec_a*b', 'question': 'rec_v?'}[case.get('stem_chars')])
    if case.get('stem_chars'):
        obs.cls('stem_with_glob_characters')
    if case.get('earlier_use'):
        # the same path held a different recording before, and the library's readers were used on it
        obs.cls('path_used_earlier')
        volt.earlier_use(stem, dict(c, directio=dio), nfiles=2)
    be = volt.build_backend(c, volt.build_source(c, with_tones=False), stats_common_prefix=False, period=1)
    user_copy = dict(hd)
    ok, _ = core.call(obs, 'record', volt.record, be, stem, c, header_dict=hd, load_template=case['template'])
    if not ok:
        return obs
    files = volt.raw_files(stem)
    nfiles_exp = -(-c['nblocks'] // c['bpf'])
    names_exp = [f'{stem}.{i:04d}.raw' for i in range(nfiles_exp)]
    obs.cls('files=1' if nfiles_exp == 1 else 'files>1')
    if c['nblocks'] % c['bpf'] and nfiles_exp > 1:
        obs.cls('last_partial')
    if files != names_exp:
        obs.fail('file_names', f'{[os.path.basename(f) for f in files]} vs {nfiles_exp} expected')
        return obs
    # ---- independent strict parse -----------------------------------------------------------
    per_file = []
    tagd = f'directio{int(dio)}:mod{ncards % 32 if ncards % 32 in (0, 1, 31) else "x"}'
    for k, fn in enumerate(files):
        try:
            blocks = ref_guppi.parse_file(fn)
        except ref_guppi.RawFormatError as e:
            obs.fail(f'malformed_file:{tagd}', str(e)[-250:] + f' (cards {ncards})')
            return obs
        per_file.append(blocks)
        want = min(c['bpf'], c['nblocks'] - k * c['bpf'])
        if len(blocks) != want:
            obs.fail('blocks_in_file', f'file {k}: {len(blocks)} vs {want}')
            return obs
    allb = [b for blocks in per_file for b in blocks]
    p0 = case['pktidx'] or 0
    pstart = case['pktstart'] if (case['pktidx'] is not None and case.get('pktstart') is not None) else p0
    exp = expected_owned(c, sz)
    for j, b in enumerate(allb):
        h = b['header']
        if b['cards'] != ncards:
            obs.fail('card_count', f'block {j}: {b["cards"]} vs {ncards}')
            break
        try:
            file_dio = int(float(h.get('DIRECTIO', '0'))) != 0
        except ValueError:
            file_dio = None
        if file_dio != dio:
            obs.fail('directio_card', f'block {j}: DIRECTIO card {h.get("DIRECTIO")!r}, expected {"non-zero" if dio else "zero/absent"}')
        if len(b['data']) != sz['block_size']:
            obs.fail('payload_size', f'block {j}')
        try:
            if int(h['PKTIDX']) != p0 + j * sz['spb']:
                obs.fail('pktidx_step', f'block {j}: PKTIDX {h["PKTIDX"]} expected {p0 + j * sz["spb"]}')
                break
            if int(h['PKTSTART']) != pstart or int(h['PKTSTOP']) != pstart + c['nblocks'] * sz['spb']:
                obs.fail('pktstart_pktstop', f'{h["PKTSTART"]} {h["PKTSTOP"]} vs {pstart} {pstart + c["nblocks"] * sz["spb"]}')
                break
        except (KeyError, ValueError) as e:
            obs.fail('pkt_cards_missing', repr(e))
            break
        # configuration-owned cards
        for key, val in exp.items():
            if key == 'NANTS' and not c['array'] and 'NANTS' not in h:
                continue          # a single-antenna file may omit the card
            if key not in h:
                obs.fail(f'owned_missing:{key}', f'block {j}')
                continue
            try:
                got = float(h[key])
            except ValueError:
                obs.fail(f'owned_unparseable:{key}', h[key])
                continue
            # floats are written with their full repr (TBIN with 15 significant digits): a few ulps of evaluation order
            tol = (1e-14 * abs(val) if key == 'TBIN' else 16 * gen.ulp(val)) if key in ('TBIN', 'SCANLEN', 'CHAN_BW', 'OBSBW', 'OBSFREQ') else 0
            if abs(got - val) > tol:
                obs.fail(f'owned_value:{key}', f'block {j}: {h[key]!r} vs {val!r}' + (' (user supplied a bogus value)' if key in case['bogus'] else ''))
        # user cards preserved
        for key, (typ, v) in user.items():
            if key not in h:
                obs.fail('user_card_lost', f'{key} ({typ})')
                break
            try:
                same = (int(h[key]) == v) if typ == 'int' else ((float(h[key]) == v) if typ == 'float' else (h[key].strip() == v.strip()))
            except ValueError:
                same = False
            if not same:
                obs.fail(f'user_card_changed:{typ}', f'{key}: {h[key]!r} vs {v!r}')
                break
        if obs.violations:
            break
    total_size = sum(os.path.getsize(f) for f in files)
    if total_size != sum(b['hdr_len'] + b['pad'] + len(b['data']) for b in allb):
        obs.fail('file_size', '')
    # ---- the library's readers ----------------------------------------------------------------
    ok, rh = core.call(obs, 'read_header', raw_utils.read_header, files[0])
    if ok:
        h0 = per_file[0][0]['header']
        if list(rh.keys()) != list(h0.keys()):
            obs.fail('read_header_keys', f'{len(rh)} vs {len(h0)}')
        else:
            for k in h0:
                if rh[k].strip() != h0[k].strip():
                    obs.fail('read_header_value', f'{k}: {rh[k]!r} vs {h0[k]!r}')
                    break
        # the returned dictionary is the caller's: editing it must not leak into later reads of the unchanged file
        rh['ZZPHANTM'] = '1'
        rh.pop(next(iter(h0)), None)
    # blimpy's GuppiRaw, the independent reader the property names (its DIRECTIO padding is file-relative, which
    # coincides with header-relative padding when block sizes are multiples of 512)
    # ... and its card parser stops at any key starting with END and splits cards at every '=': only headers it can read
    blimpy_ok = not any(k.startswith('END') for k in user) and not any(t_ == 'str' and ('=' in str(v_)) for t_, v_ in user.values())
    if blimpy_ok and (not dio or sz['block_size'] % 512 == 0):
        from blimpy.guppi import GuppiRaw
        obs.cls('blimpy_guppiraw')
        for fn in files[:2] + files[-1:]:
            try:
                g = GuppiRaw(fn)
                nb = int(g.find_n_data_blocks())
                g.file_obj.close() if hasattr(g, 'file_obj') else None
            except BaseException as exc:
                obs.fail(f'blimpy_cannot_read:{tagd}', repr(exc)[:200])
                break
            want = len(per_file[files.index(fn)])
            if nb != want:
                obs.fail(f'blimpy_block_count:{tagd}', f'{nb} vs {want}')
                break
    for k, fn in enumerate(files[:3] + files[-1:]):
        ok, n = core.call(obs, 'get_blocks_in_file', raw_utils.get_blocks_in_file, fn)
        want = len(per_file[files.index(fn)])
        if ok and n != want:
            obs.fail(f'get_blocks_in_file:{tagd}', f'{n} vs {want} (cards {ncards}, blocksize {sz["block_size"]})')
            break
    ok, n = core.call(obs, 'get_blocks_per_file', raw_utils.get_blocks_per_file, stem)
    if ok and n != len(per_file[0]):
        obs.fail(f'get_blocks_per_file:{tagd}', f'{n} vs {len(per_file[0])}')
    # listing order is the file system's business: every permutation must give the same total
    import glob as real_glob
    rs = np.random.RandomState(case['perm_seed'])
    if len(files) <= 4:
        perms = list(itertools.permutations(files))
    else:
        perms = [tuple(files), tuple(files[::-1])] + [tuple(rs.permutation(files)) for _ in range(4)]

    class Shim(object):
        order = None

        @staticmethod
        def glob(pattern, *a, **k):
            res = real_glob.glob(pattern, *a, **k)
            if Shim.order is not None and set(res) == set(Shim.order):
                return list(Shim.order)
            return res
        # everything else of the module as it is (the library is free to use escape / iglob / has_magic)
        escape = staticmethod(real_glob.escape)
        has_magic = staticmethod(real_glob.has_magic)

        @staticmethod
        def iglob(pattern, *a, **k):
            return iter(Shim.glob(pattern, *a, **k))
    saved = raw_utils.glob
    raw_utils.glob = Shim
    try:
        for perm in perms:
            Shim.order = perm
            if list(perm) != sorted(perm):
                obs.cls('listing_unsorted')
            ok, n = core.call(obs, 'get_total_blocks', raw_utils.get_total_blocks, stem)
            if ok and n != c['nblocks']:
                srt = 'sorted' if list(perm) == sorted(perm) else 'unsorted'
                obs.fail(f'get_total_blocks:{srt}_listing', f'{n} vs {c["nblocks"]} with {len(files)} files (bpf {c["bpf"]})')
                break
    finally:
        raw_utils.glob = saved
    ok, rh2 = core.call(obs, 'read_header[again]', raw_utils.read_header, files[0])
    if ok and list(rh2.keys()) != list(per_file[0][0]['header'].keys()):
        obs.fail('read_header_keys:second_read', f"{len(rh2)} vs {len(per_file[0][0]['header'])}")
    ok, rp = core.call(obs, 'get_raw_params', raw_utils.get_raw_params, stem, c['start_chan'])
    if ok:
        chan_bw = c['sr'] / c['B'] * (1 if c['ascending'] else -1)
        want = dict(num_bits=c['nbits'], num_pols=c['npol'], block_size=sz['block_size'], num_antennas=c['na'],
                    num_chans=c['num_chans'], ascending=c['ascending'])
        for k, v in want.items():
            if rp.get(k) != v:
                obs.fail(f'get_raw_params:{k}', f'{rp.get(k)!r} vs {v!r}')
        if abs(rp['chan_bw'] - chan_bw) > 1e-9 * abs(chan_bw) or abs(rp['fch1'] - c['fch1']) > 1e-9 * max(abs(c['fch1']), abs(chan_bw) * c['B']):
            obs.fail('get_raw_params:frequency', f'{rp["chan_bw"]} {rp["fch1"]} vs {chan_bw} {c["fch1"]}')
    obs.nontrivial = c['nblocks'] > 1 and (not case['template'] or len(user) > 0)
    # ---- the same backend records again: framing of the second recording depends on its own arguments only ----
    if case.get('again') and not obs.violations:
        obs.cls('second_recording_same_backend')
        n2 = case['again']
        stem2 = ctx.path('rec2')
        c2 = dict(c, nblocks=n2)
        ok, _ = core.call(obs, 'record[second]', volt.record, be, stem2, c2, header_dict=dict(user_copy), load_template=case['template'])
        if ok:
            files2 = volt.raw_files(stem2)
            want_files = -(-n2 // c['bpf'])
            if len(files2) != want_files:
                obs.fail('second_recording_file_count', f'{len(files2)} files for {n2} blocks at {c["bpf"]} per file (first recording had {c["nblocks"]} blocks)')
            else:
                try:
                    cnt = [len(ref_guppi.parse_file(f)) for f in files2]
                except ref_guppi.RawFormatError as e:
                    obs.fail('second_recording_malformed', str(e)[-200:])
                    cnt = None
                if cnt is not None:
                    want = [min(c['bpf'], n2 - k * c['bpf']) for k in range(want_files)]
                    if cnt != want:
                        obs.fail('second_recording_blocks_per_file', f'{cnt} vs {want}')
                    b0 = ref_guppi.parse_file(files2[0])[0]['header']
                    if int(b0['PKTIDX']) != p0 or int(b0['PKTSTOP']) - int(b0['PKTSTART']) != n2 * sz['spb']:
                        obs.fail('second_recording_pkt', f'PKTIDX {b0["PKTIDX"]} PKTSTART {b0["PKTSTART"]} PKTSTOP {b0["PKTSTOP"]} (expected start {p0}, span {n2 * sz["spb"]})')
    return obs
