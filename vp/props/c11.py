"""C11 - synthetic noise has the requested distribution; SNR bookkeeping is consistent."""
import math
import os

import numpy as np
from hypothesis import strategies as st

from vp import core, gen

PROP_ID = 'C11'
LEVEL = 'exploration'
BUDGET = {'quick': 9000, 'thorough': 60000}
RULE = ('Histories on frames with df*dt in [n-0.45, n+0.45], n = 1..10, plus exactly representable half-integers (where the '
        'statement\'s round() is read as Python\'s round-half-to-even): Hypothesis draws 1..5 ops from add_noise(chi2 | gaussian | truncated gaussian), '
        'add_noise_from_obs(own tables of 1..12 distinct entries | the shipped table, share_index on/off, three noise '
        'types; with a shared index also rows whose deviation exceeds the mean) and zero_data. Deterministic oracles after every op: data_after == data_before + returned exactly, '
        'every array returned since the last reset still has the values it had when returned and the data equal their running sum; '
        'truncated noise >= floor (and the floor is attained, identifying the table entry); the first noise on an empty '
        'frame sets (noise_mean, noise_std) to the requested parameters, resp. (x_mean, x_mean*sqrt(2/k)), k = 4 round(df '
        'dt); table draws are table members with one common index when shared; the shipped table is scaled by '
        'dt/1.4316557653333333; intensity/snr are inverse with factor noise_std/sqrt(tchans) and raise without noise; '
        'zero_data resets. Statistical oracles (case shape 64x512 = 32768 samples, analytic 6.5-sigma bands incl. the '
        'chi-squared kurtosis 12/k): chi2 mean, variance and k-hat = 2 mean^2/var; gaussian mean/std; sigma-clipped '
        're-estimate after a second addition within [0.96, 1+band] of the quadrature sum. Voltage streams: noise '
        'deviations add in quadrature incl. the shared array background (exact bookkeeping + sampled 40000-sample check). '
        'Non-trivial: a statistical facet evaluated on >= 32768 samples, or a history with >= 2 additions.')
ASSUMPTIONS = ['expected false-alarm rate of the 6.5-sigma bands < 1e-6 per run; mutations of interest (k +- 4, variance formula) lie > 12 sigma away for k <= 40',
               'own tables drawn without a shared index have means > deviations (there the library raises the mean to the deviation otherwise)', 'no bit-equality with a particular RNG call pattern is required']
REQUIRED_CLASSES = ['stat_chi2', 'stat_gauss', 'stat_second_addition', 'obs_own_tables', 'obs_shipped', 'share_index', 'no_share_index',
                    'truncated', 'zero_data', 'streams', 'dfdt=1', 'dfdt>=5', 'dfdt_exact_tie', 'rejected_call', 'preloaded_constant', 'preloaded_ramp',
                    'shared_row_with_std_above_mean', 'earlier_returned_arrays_rechecked']

OBS_DT = 1.4316557653333333


@st.composite
def strategy_(draw, tier):
    n = draw(st.integers(1, 10))
    tie = draw(st.integers(0, 7)) == 0
    if tie:
        # exactly representable half-integers: round() in the statement is Python's (half to even)
        prod = n + 0.5
        dt = draw(st.sampled_from([1.0, 0.5, 2.0, 0.25]))
        n = round(prod)
    else:
        prod = n + draw(gen.finite(-0.45, 0.45))
        dt = draw(st.sampled_from([18.253611008, 1.0, 0.5, 3.3]))
    df = prod / dt
    stat = None if tie else draw(st.sampled_from([None, None, 'chi2', 'gauss', 'second']))
    if stat:
        shape = (64, 512)
    else:
        shape = (draw(st.integers(1, 12)), draw(st.integers(1, 24)))
    nt = draw(st.integers(1, 12))
    means = draw(st.lists(gen.finite(5.0, 500.0), min_size=nt, max_size=nt, unique=True))
    stds = draw(st.lists(gen.finite(0.1, 4.9), min_size=nt, max_size=nt, unique=True))
    ops = draw(st.lists(st.one_of(
        st.fixed_dictionaries({'op': st.just('add_noise'), 'type': st.sampled_from(['chi2', 'gaussian', 'normal', 'trunc']),
                               'mean': st.one_of(gen.finite(1.0, 1e3), gen.finite(1e-12, 1e-6)),
                               'std': st.one_of(gen.finite(0.1, 50.0), gen.finite(1e-12, 1e-7)), 'floor_z': gen.finite(-1.0, 1.0)}),
        st.fixed_dictionaries({'op': st.just('from_obs'), 'tables': st.sampled_from(['own', 'own', 'shipped']),
                               'type': st.sampled_from(['chi2', 'gaussian', 'trunc']), 'share': st.booleans(),
                               # deviations 200x larger (some rows then exceed their mean): used with a shared index only,
                               # where the table row is taken as it is
                               'big_std': st.booleans()}),
        st.fixed_dictionaries({'op': st.just('zero_data')}),
        # a call that must be rejected (and must leave the frame as it was)
        st.fixed_dictionaries({'op': st.just('bad_add_noise'), 'how': st.sampled_from(['no_std', 'bad_type']), 'mean': gen.finite(1.0, 50.0)}),
        # Gaussian noise of zero width: data and mean change, the deviation stays exactly 0
        st.fixed_dictionaries({'op': st.just('add_noise'), 'type': st.just('gaussian'), 'mean': gen.finite(1.0, 50.0),
                               'std': st.just(0.0), 'floor_z': st.just(0.0)})), min_size=1, max_size=5))
    return dict(n=n, tie=tie, df=df, dt=dt, shape=list(shape), stat=stat, seed=draw(st.integers(0, 2 ** 31 - 1)),
                means=means, stds=stds, ops=ops,
                stat_mean=draw(gen.finite(1.0, 100.0)), stat_std=draw(gen.finite(0.5, 20.0)),
                stat_std2=draw(gen.finite(0.5, 20.0)), ascending=draw(st.booleans()),
                streams=draw(st.sampled_from([None, None, None, 'single', 'array'])),
                preload=draw(st.sampled_from([None, None, None, 'constant', 'ramp'])),
                v1=draw(gen.finite(0.1, 3.0)), v2=draw(gen.finite(0.1, 3.0)), vb=draw(gen.finite(0.1, 3.0)))


def strategy(tier):
    return strategy_(tier)


def run_case(case, ctx):
    stg = core.import_setigen()
    obs = core.Obs()
    T, N = case['shape']
    k = 4 * case['n']
    obs.cls('dfdt=1' if case['n'] == 1 else ('dfdt>=5' if case['n'] >= 5 else 'dfdt=2..4'))
    if case.get('tie'):
        obs.cls('dfdt_exact_tie')
    pre = case.get('preload') if not case['stat'] else None
    data0 = None
    if pre == 'constant':
        data0 = np.full((T, N), 7.5)            # not empty, yet its deviation is exactly zero
    elif pre == 'ramp':
        data0 = 3.0 + np.arange(T * N, dtype=float).reshape(T, N) / (T * N)
    ok, fr = core.call(obs, 'construct', lambda: stg.Frame(fchans=N, tchans=T, df=case['df'], dt=case['dt'], fch1=6e9,
                                                         ascending=case['ascending'], seed=case['seed'], t_start=0.0, data=data0))
    if not ok:
        return obs
    if pre:
        obs.cls('preloaded_' + pre)
    if fr.chi2_df != k:
        obs.fail('degrees_of_freedom', f'{fr.chi2_df} vs {k} for df*dt = {case["df"] * case["dt"]!r}')
    NS = T * N
    # ---- no noise: SNR relations must refuse --------------------------------------------------------------
    if fr.noise_std == 0:
        core.expect_raises(obs, 'get_intensity_without_noise', (ValueError,), fr.get_intensity, 10)
        core.expect_raises(obs, 'get_snr_without_noise', (ValueError,), fr.get_snr, 10)

    # ---- statistical facets ---------------------------------------------------------------------------------
    stat = case['stat']
    if stat == 'chi2':
        obs.cls('stat_chi2')
        obs.nontrivial = True
        m0 = case['stat_mean']
        ok, noise = core.call(obs, 'add_noise[chi2]', fr.add_noise, x_mean=m0, noise_type='chi2')
        if ok:
            var = 2 * m0 * m0 / k
            m, v = float(np.mean(noise)), float(np.var(noise))
            if abs(m - m0) > 6.5 * math.sqrt(var / NS):
                obs.fail('chi2_mean', f'{m} vs {m0} (k={k})')
            sd_v = var * math.sqrt((2 + 12.0 / k) / NS)
            if abs(v - var) > 6.5 * sd_v:
                obs.fail('chi2_variance', f'{v} vs {var} (k={k}, {abs(v - var) / sd_v:.1f} sigma)')
            khat = 2 * m * m / v
            sd_k = k * math.sqrt((2 + 12.0 / k) / NS + 4 * (2.0 / k) / NS)
            if abs(khat - k) > 6.5 * sd_k:
                obs.fail('chi2_degrees_of_freedom_estimate', f'k-hat {khat:.2f} vs {k} ({abs(khat - k) / sd_k:.1f} sigma)')
            if np.min(noise) < 0:
                obs.fail('chi2_negative', '')
            if not (fr.noise_mean == m0 and abs(fr.noise_std - m0 * math.sqrt(2.0 / k)) <= 1e-12 * m0):
                obs.fail('chi2_noise_stats', f'{fr.noise_mean},{fr.noise_std} vs {m0},{m0 * math.sqrt(2.0 / k)}')
            if not np.array_equal(fr.data, noise):
                obs.fail('returned_is_added:first', '')
    elif stat in ('gauss', 'second'):
        m0, s0 = case['stat_mean'], case['stat_std']
        ok, noise = core.call(obs, 'add_noise[gaussian]', fr.add_noise, x_mean=m0, x_std=s0, noise_type='gaussian')
        if ok:
            obs.nontrivial = True
            if stat == 'gauss':
                obs.cls('stat_gauss')
                m, s = float(np.mean(noise)), float(np.std(noise))
                if abs(m - m0) > 6.5 * s0 / math.sqrt(NS):
                    obs.fail('gaussian_mean', f'{m} vs {m0}')
                if abs(s - s0) > 6.5 * s0 / math.sqrt(2 * NS):
                    obs.fail('gaussian_std', f'{s} vs {s0}')
                if (fr.noise_mean, fr.noise_std) != (m0, s0):
                    obs.fail('gaussian_noise_stats', f'{fr.noise_mean},{fr.noise_std}')
            else:
                obs.cls('stat_second_addition')
                s1 = case['stat_std2']
                before = fr.data.copy()
                ok, n2 = core.call(obs, 'add_noise[second]', fr.add_noise, x_mean=0.5 * m0, x_std=s1, noise_type='normal')
                if ok:
                    if not np.array_equal(fr.data, before + n2):
                        obs.fail('returned_is_added:second', '')
                    tot = math.sqrt(s0 * s0 + s1 * s1)
                    r = fr.noise_std / tot
                    if not (0.96 <= r <= 1.0 + 6.5 / math.sqrt(2 * NS)):
                        obs.fail('reestimated_noise_std', f'{fr.noise_std} vs quadrature sum {tot} (ratio {r:.4f})')
                    if abs(fr.noise_mean - 1.5 * m0) > 6.5 * tot / math.sqrt(NS) * 1.1:
                        obs.fail('reestimated_noise_mean', f'{fr.noise_mean} vs {1.5 * m0}')
        if ok and fr.noise_std > 0:
            ok1, inten = core.call(obs, 'get_intensity', fr.get_intensity, 25.0)
            if ok1:
                if abs(inten - 25.0 * fr.noise_std / math.sqrt(T)) > 1e-12 * abs(inten):
                    obs.fail('get_intensity', f'{inten}')
                ok2, snr = core.call(obs, 'get_snr', fr.get_snr, inten)
                if ok2 and abs(snr - 25.0) > 1e-10:
                    obs.fail('snr_not_inverse', f'{snr}')
    else:
        run_history(obs, stg, fr, case, k)
    if case['streams']:
        run_streams(obs, case)
    return obs


def run_history(obs, stg, fr, case, k):
    T, N = fr.shape
    additions = 0
    shipped = None
    base = fr.data.copy()          # data at the last reset
    returned = []                   # (array object handed back, its values at that moment) since the last reset

    def check_returned(when):
        # what was handed back stays what was added: later operations neither change it nor detach the data from it
        acc = base.copy()
        for j, (live, snap) in enumerate(returned):
            if not np.array_equal(live, snap):
                obs.fail(f'returned_array_changed_later:{when}', f'array returned by addition {j} of {len(returned)} changed afterwards in {int(np.sum(live != snap))} pixels')
                return
            acc = acc + live
        if returned and when != 'after_zero_data' and not np.array_equal(acc, fr.data):
            obs.fail(f'data_is_sum_of_returned:{when}', f'{int(np.sum(acc != fr.data))} pixels after {len(returned)} additions')
    for o in case['ops']:
        name = o['op']
        empty = (fr.noise_mean == 0 and fr.noise_std == 0)
        before = fr.data.copy()
        if name == 'zero_data':
            obs.cls('zero_data')
            ok, _ = core.call(obs, 'zero_data', fr.zero_data)
            if ok:
                if np.any(fr.data != 0) or fr.data.shape != (T, N):
                    obs.fail('zero_data_data', '')
                if fr.noise_mean != 0 or fr.noise_std != 0:
                    obs.fail('zero_data_stats', f'{fr.noise_mean},{fr.noise_std}')
                core.expect_raises(obs, 'get_intensity_after_zero_data', (ValueError,), fr.get_intensity, 10)
                check_returned('after_zero_data')
            base, returned = fr.data.copy(), []
            continue
        if name == 'bad_add_noise':
            obs.cls('rejected_call')
            st0 = (fr.noise_mean, fr.noise_std, fr.data.copy(), fr.rng.bit_generator.state)
            if o['how'] == 'no_std':
                core.expect_raises(obs, 'gaussian_without_std', (ValueError,), fr.add_noise, x_mean=o['mean'], noise_type='gaussian')
            else:
                core.expect_raises(obs, 'unknown_noise_type', (ValueError,), fr.add_noise, x_mean=o['mean'], x_std=1.0, noise_type='poisson')
            if (fr.noise_mean, fr.noise_std) != st0[:2] or not np.array_equal(fr.data, st0[2]):
                obs.fail('rejected_call_changed_frame', f'{fr.noise_mean},{fr.noise_std} vs {st0[0]},{st0[1]}')
            continue
        exp_stats = None
        floor = None
        if name == 'add_noise':
            typ = o['type']
            if typ == 'chi2':
                ok, noise = core.call(obs, 'add_noise[chi2]', fr.add_noise, x_mean=o['mean'], noise_type='chi2')
                exp_stats = (o['mean'], o['mean'] * math.sqrt(2.0 / k))
            elif typ == 'trunc':
                obs.cls('truncated')
                floor = o['mean'] + o['floor_z'] * o['std']
                ok, noise = core.call(obs, 'add_noise[trunc]', fr.add_noise, x_mean=o['mean'], x_std=o['std'], x_min=floor, noise_type='gaussian')
                exp_stats = (o['mean'], o['std'])
            else:
                ok, noise = core.call(obs, f'add_noise[{typ}]', fr.add_noise, x_mean=o['mean'], x_std=o['std'], noise_type=typ)
                exp_stats = (o['mean'], o['std'])
        else:
            own = o['tables'] == 'own'
            share = o['share']
            obs.cls('obs_own_tables' if own else 'obs_shipped', 'share_index' if share else 'no_share_index')
            typ = {'chi2': 'chi2', 'gaussian': 'gaussian', 'trunc': 'normal'}[o['type']]
            if own:
                means = np.array(case['means'])
                stds = np.array(case['stds'])
                if o.get('big_std') and share and o['type'] != 'chi2':
                    stds = stds * 200.0
                    if np.any(stds > means):
                        obs.cls('shared_row_with_std_above_mean')
                mins = means - 0.01 * stds * (1 + np.arange(len(means)))      # near the mean: the floor is attained
                kw = dict(x_mean_array=means, x_std_array=stds, share_index=share, noise_type=typ)
                if o['type'] == 'trunc':
                    kw['x_min_array'] = mins
                    obs.cls('truncated')
            else:
                if shipped is None:
                    shipped = np.load(os.path.join(core.REPO, 'setigen', 'assets', 'sample_noise_params.npy'))
                scale = fr.dt / OBS_DT
                means, stds, mins = shipped[:, 0] * scale, shipped[:, 1] * scale, shipped[:, 2] * scale
                kw = dict(share_index=share, noise_type=typ)
            ok, noise = core.call(obs, f'add_noise_from_obs[{o["tables"]},{o["type"]},share={share}]', fr.add_noise_from_obs, **kw)
            if ok and empty:
                nm, nsd = float(fr.noise_mean), float(fr.noise_std)
                tol = 1e-12
                im = np.flatnonzero(np.abs(means - nm) <= tol * np.abs(means))
                if typ == 'chi2':
                    if len(im) == 0:
                        obs.fail('table_member:chi2_mean', f'{nm} not in the mean table ({o["tables"]})')
                    elif abs(nsd - nm * math.sqrt(2.0 / k)) > 1e-12 * nm:
                        obs.fail('chi2_noise_stats_from_obs', f'{nsd} vs {nm * math.sqrt(2.0 / k)}')
                else:
                    isd = np.flatnonzero(np.abs(stds - nsd) <= tol * np.abs(stds))
                    # the library raises the mean to the deviation if smaller: own tables avoid that regime
                    if len(im) == 0 and not (not own and not share):
                        obs.fail('table_member:mean', f'{nm} not in the mean table ({o["tables"]}, share={share})')
                    if len(isd) == 0:
                        obs.fail('table_member:std', f'{nsd} not in the deviation table ({o["tables"]}, share={share})')
                    has_floor = (own and o['type'] == 'trunc') or (not own)
                    imin = None
                    if has_floor and ok:
                        mn = float(np.min(noise))
                        cand = np.flatnonzero(np.abs(mins - mn) <= 1e-9 * np.maximum(np.abs(mins), 1e-300))
                        if own:
                            if len(cand):
                                imin = cand
                            elif mn < float(np.min(mins)) - 1e-9:
                                obs.fail('floor_violated:table', f'min {mn} below every table floor')
                            elif int(np.sum(noise == mn)) >= 2:
                                # several samples sit exactly on the minimum: they were raised to a floor, and that
                                # floor is no entry of the floor table (ties between free Gaussian draws do not happen)
                                obs.fail('floor_not_from_table', f'{int(np.sum(noise == mn))} samples at {mn!r}, floors {np.sort(mins)[:4].tolist()}...; share={share}')
                            else:
                                obs.count('floor_not_attained_cases')      # tiny frame: no sample fell below its floor
                        elif np.any(noise < np.min(mins) - 1e-9):
                            obs.fail('floor_violated:shipped', '')
                    if share and len(im) and len(isd):
                        common = set(im.tolist()) & set(isd.tolist())
                        if imin is not None:
                            common &= set(imin.tolist())
                        if not common:
                            obs.fail('share_index_not_common', f'mean idx {im.tolist()[:3]} std idx {isd.tolist()[:3]} floor idx {None if imin is None else imin.tolist()[:3]}')
        if not ok:
            return
        noise = np.asarray(noise)
        additions += 1
        if noise.shape != (T, N):
            obs.fail('noise_shape', f'{noise.shape}')
            return
        returned.append((noise, noise.copy()))
        if len(returned) >= 2:
            obs.cls('earlier_returned_arrays_rechecked')
        check_returned('after_addition')
        if not np.array_equal(fr.data, before + noise):
            obs.fail(f'returned_is_added:{"first" if empty else "later"}', f'{int(np.sum(fr.data != before + noise))} pixels')
        if floor is not None and np.min(noise) < floor:
            obs.fail('floor_violated', f'{np.min(noise)} < {floor}')
        if not empty:
            from astropy.stats import sigma_clip
            cl = sigma_clip(fr.data, sigma=3, maxiters=5, masked=False)
            want = (float(np.mean(cl)), float(np.std(cl)))
            if abs(fr.noise_mean - want[0]) > 1e-9 * max(abs(want[0]), 1e-300) or abs(fr.noise_std - want[1]) > 1e-9 * max(abs(want[1]), 1e-300):
                obs.fail('later_noise_reestimates_stats', f'{fr.noise_mean!r},{fr.noise_std!r} vs sigma-clipped {want} (stats before: non-zero)')
        if empty and exp_stats is not None:
            if not (fr.noise_mean == exp_stats[0] and abs(fr.noise_std - exp_stats[1]) <= 1e-12 * abs(exp_stats[1])):
                obs.fail(f'first_noise_sets_stats:{o.get("type")}', f'{fr.noise_mean},{fr.noise_std} vs {exp_stats}')
        if fr.noise_std > 0:
            ok1, inten = core.call(obs, 'get_intensity', fr.get_intensity, 17.5)
            if ok1:
                if abs(inten - 17.5 * fr.noise_std / math.sqrt(T)) > 1e-12 * abs(inten):
                    obs.fail('get_intensity', f'{inten} vs {17.5 * fr.noise_std / math.sqrt(T)}')
                ok2, snr = core.call(obs, 'get_snr', fr.get_snr, inten)
                if ok2 and abs(snr - 17.5) > 1e-10:
                    obs.fail('snr_not_inverse', f'{snr}')
        ns = fr.get_noise_stats()
        if tuple(ns) != (fr.noise_mean, fr.noise_std):
            obs.fail('get_noise_stats', '')
    if additions >= 2:
        obs.nontrivial = True


def run_streams(obs, case):
    from setigen.voltage import antenna as AN, data_stream as DS
    obs.cls('streams')
    v1, v2, vb = case['v1'], case['v2'], case['vb']
    if case['streams'] == 'single':
        s = DS.DataStream(sample_rate=1e6, seed=case['seed'])
        s.add_noise(0.3, v1)
        s.add_noise(-0.2, v2)
        want = math.sqrt(v1 * v1 + v2 * v2)
        if abs(s.noise_std - want) > 1e-12 * want or abs(s.get_total_noise_std() - want) > 1e-12 * want:
            obs.fail('stream_quadrature', f'{s.noise_std} vs {want}')
        x = np.asarray(s.get_samples(40000))
        if abs(np.std(x) - want) > 6.5 * want / math.sqrt(2 * 40000):
            obs.fail('stream_sampled_std', f'{np.std(x)} vs {want}')
        if abs(np.mean(x) - 0.1) > 6.5 * want / math.sqrt(40000):
            obs.fail('stream_sampled_mean', f'{np.mean(x)} vs 0.1')
        # a measured estimate (update_noise) takes the place of the bookkeeping value; later noise adds to IT in quadrature
        s.update_noise(20000)
        est = float(s.noise_std)
        if abs(est - want) > 6.5 * want / math.sqrt(2 * 20000):
            obs.fail('stream_update_noise_estimate', f'{est} vs {want}')
        s.add_noise(0.0, v1)
        w3 = math.sqrt(est * est + v1 * v1)
        if abs(s.noise_std - w3) > 1e-12 * w3 or abs(s.get_total_noise_std() - w3) > 1e-12 * w3:
            obs.fail('stream_quadrature_after_update_noise', f'{s.noise_std} vs {w3}')
    else:
        arr = AN.MultiAntennaArray(num_antennas=2, sample_rate=1e6, num_pols=2, delays=[0, 3], seed=case['seed'])
        for a in arr.antennas:
            a.x.add_noise(0, v1)
            a.y.add_noise(0, v2)
        arr.bg_x.add_noise(0, vb)
        for a in arr.antennas:
            wx = math.sqrt(v1 * v1 + vb * vb)
            if abs(a.x.get_total_noise_std() - wx) > 1e-12 * wx or a.x.bg_noise_std != arr.bg_x.noise_std:
                obs.fail('array_quadrature_x', f'{a.x.get_total_noise_std()} vs {wx}')
            if abs(a.y.get_total_noise_std() - v2) > 1e-12 * v2 or a.y.bg_noise_std != 0:
                obs.fail('array_quadrature_y_without_background', f'{a.y.get_total_noise_std()} vs {v2}')
        v = np.asarray(arr.get_samples(40000))
        for i in range(2):
            wx = math.sqrt(v1 * v1 + vb * vb)
            if abs(np.std(v[i, 0]) - wx) > 6.5 * wx / math.sqrt(2 * 40000):
                obs.fail('array_sampled_std_x', f'antenna {i}: {np.std(v[i, 0])} vs {wx}')
            if abs(np.std(v[i, 1]) - v2) > 6.5 * v2 / math.sqrt(2 * 40000):
                obs.fail('array_sampled_std_y', f'antenna {i}: {np.std(v[i, 1])} vs {v2}')
        # update_noise re-estimates from samples and propagates the background estimate
        arr.bg_x.update_noise(20000)
        if abs(arr.bg_x.noise_std - vb) > 6.5 * vb / math.sqrt(2 * 20000):
            obs.fail('update_noise_estimate', f'{arr.bg_x.noise_std} vs {vb}')
        if any(a.x.bg_noise_std != arr.bg_x.noise_std for a in arr.antennas):
            obs.fail('update_noise_not_propagated', '')
        est = float(arr.bg_x.noise_std)
        arr.bg_x.add_noise(0, v2)
        wb = math.sqrt(est * est + v2 * v2)
        if abs(arr.bg_x.noise_std - wb) > 1e-12 * wb:
            obs.fail('background_quadrature_after_update_noise', f'{arr.bg_x.noise_std} vs {wb}')
        for a in arr.antennas:
            wx = math.sqrt(v1 * v1 + wb * wb)
            if abs(a.x.get_total_noise_std() - wx) > 1e-12 * wx or a.x.bg_noise_std != arr.bg_x.noise_std:
                obs.fail('array_quadrature_x_after_update_noise', f'{a.x.get_total_noise_std()} vs {wx}')
