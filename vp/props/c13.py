"""C13 - the constant-signal helper injects the same signal as general injection."""
import math

import numpy as np
from hypothesis import strategies as st

from vp import core, gen, sig as S

PROP_ID = 'C13'
LEVEL = 'exploration'
BUDGET = {'quick': 15000, 'thorough': 120000}
RULE = ('Differential: Hypothesis draws a frame geometry, a start channel in [-3, fchans+3] (with atoms on channel '
        'centres and half-way points), a drift in [-4,4] channels per step (atom exactly 0), a level, a width in '
        '[0.05,10] channels, one of the five profile types, smearing on/off and plain/Quantity arguments; '
        'add_constant_signal is compared with add_signal(constant_path, constant_t_profile, same profile) on a twin '
        'frame (unbounded; with smearing max(1, ceil(|drift|/unit drift)) sub-steps): equal wherever the general '
        'signal is non-zero for compact profiles (box, truncated sinc^2), equal within FWHM/2 of the (smeared) '
        'centre for tailed profiles, equal-or-zero elsewhere. Mirror: helper(-d) on the mirrored start equals the '
        'frequency-flipped general(+d); zero-drift smeared equals unsmeared. Non-trivial: the general signal is '
        'non-zero inside the band.')
ASSUMPTIONS = ['tolerance = level * (Lipschitz(profile) * 64 ulp(fmax) + 1e-9)', 'box-edge pixels excluded and counted',
               'Voigt FWHM from the 0.5346/0.2166 approximation']
REQUIRED_CLASSES = ['drift<0', 'drift=0', 'drift>0', 'smear', 'nosmear', 'width<0.5', 'width<1', 'width>=1',
                    'start=inside', 'start=edge', 'start=outside', 'type=box', 'type=sinc2', 'type=gaussian',
                    'type=lorentzian', 'type=voigt', 'visible', 'quantity=MHz', 'quantity=GHz', 'level_type=np.float32', 'level_type=np.int64', 'earlier_call_on_coarser_frame', 'level<=1e-8']

TYPES = ['sinc2', 'box', 'gaussian', 'lorentzian', 'voigt']


@st.composite
def strategy_(draw, tier):
    g = draw(gen.geometry(max_fchans=200 if tier == 'thorough' else 48, max_tchans=12, min_fchans=2))
    if draw(st.integers(0, 29)) == 0:
        g['fchans'] = draw(st.sampled_from([2 ** 16 + 500, 70001, 2 ** 17 + 3]))      # product-sized band
        g['tchans'] = draw(st.integers(1, 3))
        g['fch1'] = min(max(g['fch1'], 4.0 * g['fchans'] * g['df'] + 1.0), g['df'] * 2.0 ** 40)
    N = g['fchans']
    start = draw(st.one_of(st.integers(-3, N + 3).map(float),
                           st.integers(-3, N + 2).map(lambda k: k + 0.5),
                           gen.finite(-3, N + 3), gen.finite(0, N - 1)))
    drift = draw(st.one_of(st.just(0.0), gen.finite(-4, 4), gen.finite(-1.2, 1.2),
                           st.sampled_from([1.0, -1.0, 2.0, -2.0, 0.5, -0.5]),
                           # whole multiples of the unit drift rate: the sub-step count sits on a rounding edge
                           st.integers(-4, 4).map(float), st.integers(-4, 4).map(float)))
    width = draw(st.one_of(gen.finite(0.05, 0.5), gen.finite(0.5, 1.0), gen.finite(1.0, 10.0)))
    return dict(g=g, start=start, drift=drift, level=draw(st.one_of(st.just(1.0), gen.finite(0.1, 50), gen.finite(0.1, 50), st.sampled_from([4e-9, 9.9e-9, 2.5e-23]))),
                width=width, type=draw(st.sampled_from(TYPES)), smear=draw(st.booleans()),
                quantity=draw(st.sampled_from([None, None, 'Hz', 'kHz', 'MHz', 'GHz'])),
                level_type=draw(st.sampled_from(['float', 'float', 'int', 'np.float32', 'np.int64', 'np.float64'])),
                coarse_first=draw(st.sampled_from([False, False, True])),
                call_style=draw(st.sampled_from(['explicit', 'explicit', 'omit_defaults', 'omit_defaults', 'positional'])))


def strategy(tier):
    return strategy_(tier)


def profile_desc(case):
    t = case['type']
    if t == 'sinc2':
        return {'kind': 'sinc2', 'w': case['width'], 'mode': 'crossing', 'trunc': True}
    if t == 'voigt':
        return {'kind': 'voigt', 'w': case['width'], 'lw': case['width']}
    return {'kind': t, 'w': case['width']}


def half_agreement_width(case, df):
    """Half of the full width at half maximum, in Hz (tailed profiles)."""
    w = case['width'] * df
    if case['type'] == 'voigt':
        return (0.5346 * w + math.sqrt(0.2166 * w * w + w * w)) / 2
    return w / 2


def run_case(case, ctx):
    stg = core.import_setigen()
    from astropy import units as u
    obs = core.Obs()
    g = case['g']
    ok, fr = core.call(obs, 'construct', gen.make_frame, stg, g)
    if not ok:
        return obs
    ax = S.Axes(fr.fs, fr.ts, fr.df, fr.dt)
    N, T = ax.N, ax.T
    d = case['drift']
    f_start = ax.fmin + case['start'] * ax.df
    rate = d * ax.df / ax.dt
    width = case['width'] * ax.df
    smear = case['smear']
    obs.cls('drift<0' if d < 0 else ('drift=0' if d == 0 else 'drift>0'), 'smear' if smear else 'nosmear',
            'width<0.5' if case['width'] < 0.5 else ('width<1' if case['width'] < 1 else 'width>=1'),
            'type=' + case['type'], 'asc' if g['ascending'] else 'desc')
    s = case['start']
    obs.cls('start=inside' if 0.5 <= s <= N - 1.5 else ('start=edge' if -0.5 <= s <= N - 0.5 else 'start=outside'))

    lt = case.get('level_type', 'float')
    level_value = {'float': float(case['level']), 'int': max(1, int(case['level'])), 'np.float32': np.float32(case['level']),
                   'np.int64': np.int64(max(1, int(case['level']))), 'np.float64': np.float64(case['level'])}[lt]
    case = dict(case, level=float(level_value))       # the value every reference uses
    obs.cls('level_type=' + lt)
    if case['level'] <= 1e-8:
        obs.cls('level<=1e-8')
    qn = case.get('quantity')
    if qn is True:
        qn = 'Hz'

    def helper(frame, fs_, rate_):
        if qn:
            un = getattr(u, qn)
            obs.cls('quantity=' + qn)
            # unit conversion may cost an ulp of the start frequency: well inside the comparison tolerance
            return frame.add_constant_signal(f_start=(fs_ * u.Hz).to(un), drift_rate=(rate_ * u.Hz / u.s).to(un / u.s), level=level_value,
                                             width=(width * u.Hz).to(u.kHz), f_profile_type=case['type'], doppler_smearing=smear)
        style = case.get('call_style', 'explicit')
        if style == 'positional':
            return frame.add_constant_signal(fs_, rate_, level_value, width, case['type'], smear)
        if style == 'omit_defaults':
            # documented defaults: f_profile_type='sinc2', doppler_smearing=False
            kw_ = {}
            if case['type'] != 'sinc2':
                kw_['f_profile_type'] = case['type']
            if smear:
                kw_['doppler_smearing'] = True
            return frame.add_constant_signal(f_start=fs_, drift_rate=rate_, level=level_value, width=width, **kw_)
        return frame.add_constant_signal(f_start=fs_, drift_rate=rate_, level=level_value, width=width,
                                         f_profile_type=case['type'], doppler_smearing=smear)

    if case.get('coarse_first'):
        # an earlier call elsewhere in the session: same profile type and width in Hz on a much coarser frame
        obs.cls('earlier_call_on_coarser_frame')
        coarse = stg.Frame(fchans=max(4, g['fchans'] // 4), tchans=g['tchans'], df=64 * fr.df, dt=fr.dt, fch1=fr.fch1,
                           ascending=bool(g['ascending']), t_start=0.0)
        core.call(obs, 'helper[coarser frame first]', helper, coarse, f_start, rate)

    # the property's sub-step count, evaluated on the doubles actually passed (a Quantity in MHz/s comes back to Hz/s
    # with an ulp of difference, which matters exactly at whole multiples of the unit drift rate)
    qn0 = case.get('quantity')
    if qn0 is True:
        qn0 = 'Hz'
    rate_seen = float(((rate * u.Hz / u.s).to(getattr(u, qn0) / u.s)).to(u.Hz / u.s).value) if qn0 else rate
    n_s = max(1, int(math.ceil(abs(rate_seen) / fr.unit_drift_rate))) if smear else 1
    fdesc = profile_desc(case)

    def general(frame, fs_, rate_, smear_=smear, n=n_s):
        return frame.add_signal(stg.constant_path(f_start=fs_, drift_rate=rate_),
                                stg.constant_t_profile(level=case['level']),
                                S.stg_f(stg, ax, fdesc), doppler_smearing=smear_, smearing_subsamples=n)

    tag = f'helper[{case["type"]}]' + ('[smear]' if smear else '')
    ok, got = core.call(obs, tag, helper, fr, f_start, rate)
    if not ok:
        return obs
    got = np.asarray(got, dtype=float)
    tw = gen.make_frame(stg, dict(g, route='sizes', df=fr.df, dt=fr.dt, fch1=fr.fch1))
    ok, exp = core.call(obs, 'general', general, tw, f_start, rate)
    if not ok:
        return obs
    exp = np.asarray(exp, dtype=float)
    if got.shape != exp.shape:
        obs.fail('shape', f'{got.shape} vs {exp.shape}')
        return obs
    if not np.array_equal(fr.data, got):
        obs.fail('frame_data_not_signal', '')

    sg = dict(path={'kind': 'constant'}, t={'kind': 'constant', 'level': case['level']}, f=fdesc, bp={'kind': 'none'})
    tol = S.tolerance(ax, sg, n_smear=n_s if smear else 0)
    # centres per row (and smeared extent)
    c0 = f_start + rate * ax.ts
    c1 = c0 + (rate * ax.dt if smear else 0.0)
    lo_c, hi_c = np.minimum(c0, c1), np.maximum(c0, c1)
    dist = np.maximum(0.0, np.maximum(lo_c[:, None] - ax.fs[None, :], ax.fs[None, :] - hi_c[:, None]))
    compact = case['type'] in ('box', 'sinc2')
    if compact:
        must = exp != 0
    else:
        must = dist <= half_agreement_width(case, ax.df)
    excl = np.zeros_like(must)
    if case['type'] == 'box':
        # pixels a hair from a box edge of any smearing copy
        eps = 64 * gen.ulp(ax.fs[-1]) + 1e-9 * ax.df
        for m in range(n_s):
            cm = c0 + m * (rate * ax.dt) / n_s
            excl |= np.abs(np.abs(ax.fs[None, :] - cm[:, None]) - width / 2) < eps
    obs.count('excluded_edge_pixels', int(excl.sum()))
    diff = np.abs(got - exp)
    bad_must = must & ~excl & (diff > tol)
    bad_else = ~must & ~excl & (diff > tol) & (got != 0)
    cls = ('smear' if smear else 'plain') + ':' + ('neg' if d < 0 else ('zero' if d == 0 else 'pos')) + \
          ':' + ('narrow' if case['width'] < 0.5 else 'wide')
    if np.any(bad_must):
        i, j = map(int, np.argwhere(bad_must)[0])
        obs.fail(f'helper_ne_general:{cls}', f'pixel ({i},{j}) helper {got[i, j]!r} general {exp[i, j]!r}; {int(bad_must.sum())} pixels; '
                 f'type={case["type"]} start={case["start"]} drift={d} width={case["width"]}')
    if np.any(bad_else):
        i, j = map(int, np.argwhere(bad_else)[0])
        obs.fail(f'helper_neither_equal_nor_zero:{cls}', f'pixel ({i},{j}) helper {got[i, j]!r} general {exp[i, j]!r}')
    visible = bool(np.any(np.abs(exp) > 1e-12 * case['level']))
    obs.nontrivial = visible
    if visible:
        obs.cls('visible')

    # mirror image: drift -d from the mirrored start
    f_m = ax.fmin + (N - 1 - case['start']) * ax.df
    fm = gen.make_frame(stg, dict(g, route='sizes', df=fr.df, dt=fr.dt, fch1=fr.fch1))
    ok, gm = core.call(obs, tag + '[mirror]', helper, fm, f_m, -rate)
    if ok:
        gm = np.asarray(gm, dtype=float)[:, ::-1]
        badm = must & ~excl & ~excl[:, ::-1] & (np.abs(gm - exp) > 2 * tol)
        if np.any(badm):
            i, j = map(int, np.argwhere(badm)[0])
            obs.fail(f'mirror:{cls}', f'pixel ({i},{j}) mirrored helper(-d) {gm[i, j]!r} vs general(+d) {exp[i, j]!r}')
    # a second call on the SAME frame returns what it returns on a fresh one (no state carried between calls)
    if ok:
        ok2, again = core.call(obs, tag + '[second call]', helper, fr, f_m, -rate)
        if ok2:
            again = np.asarray(again, dtype=float)
            if not np.array_equal(again[:, ::-1], gm):
                obs.fail('second_call_differs_from_fresh_frame', f'max diff {float(np.max(np.abs(again[:, ::-1] - gm)))}')
            if not np.array_equal(fr.data, got + again):
                obs.fail('second_call_not_additive', '')
    # a non-drifting smeared signal equals the unsmeared one
    if smear and d == 0:
        t2 = gen.make_frame(stg, dict(g, route='sizes', df=fr.df, dt=fr.dt, fch1=fr.fch1))
        ok, un = core.call(obs, 'general_unsmeared', general, t2, f_start, rate, False, 1)
        if ok:
            un = np.asarray(un, dtype=float)
            mz = (un != 0) if compact else must
            if np.any(mz & ~excl & (np.abs(got - un) > tol)):
                obs.fail('zero_drift_smeared_ne_unsmeared', f'type={case["type"]}')
    return obs
