"""C20 - block, length and sample accounting is exact and consistent across helpers."""
import itertools
import math
from fractions import Fraction

import numpy as np
from hypothesis import strategies as st

from vp import core, gen, volt, ref_guppi

PROP_ID = 'C20'
LEVEL = 'exploration'
BUDGET = {'quick': 8000, 'thorough': 60000}
EXHAUSTIVE = {'quick': False, 'thorough': True}
RULE = ('Arithmetic tuples (sample_rate x num_branches x num_taps x num_chans x antennas x pols x bits x windows-per-block x '
        'num_blocks): Hypothesis draws from the product in the quick tier, the thorough tier enumerates the whole product '
        '(34 560 tuples) in addition; per tuple Hypothesis-drawn durations (generic, exact multiples of the block time, '
        '+-1 ulp around them), fine FFT lengths and integration factors. All sizes are recomputed with exact rationals: '
        'samples_per_block, time_per_block, get_num_blocks (whole blocks, not exceeding the request, short by < 1 block; '
        'requests within 1e-9 of a boundary may resolve either way), observation length, total sample count, and the '
        'stand-alone helpers. For tiny configurations the recording is actually run with the antenna\'s get_samples '
        'wrapped by a counter: samples drawn, clock advance, SCANLEN, PKTIDX/PKTSTART/PKTSTOP. Non-trivial: not the '
        'library default configuration; distinct by case hash.')
ASSUMPTIONS = ['1e-9 relative boundary rule from the property', 'unit drift rate compared in magnitude',
               'sample counter installed by wrapping antenna.get_samples inside the harness']
REQUIRED_CLASSES = ['recorded', 'recorded_multi_file', 'near_boundary', 'before=preview_stream', 'before=aborted_record', 'before=earlier_record', 'exact_multiple', 'array', 'array_with_delays', 'single', 'bits=4', 'bits=8', 'from_data_backend', 'from_data_request=longer', 'exact_multiple_of_integration_step']

RATES = [3e9, 2.048e9, 187.5e6, 1e6, 3.3e9]
BRANCHES = [8, 64, 1024, 4096]
TAPS = [2, 4, 8]
NCH = [1, 3, 4]
NA = [1, 2, 3]
MS = [1, 3, 8, 32]
NBLK = [1, 2, 5, 128]


def dur_strategy():
    return st.one_of(
        st.fixed_dictionaries({'kind': st.just('generic'), 'x': gen.finite(0.0, 40.0)}),
        st.fixed_dictionaries({'kind': st.just('multiple'), 'k': st.integers(0, 200), 'ulps': st.sampled_from([0, 0, 1, -1, 2])}),
        # an exact multiple of the integration step (fftlength * int_factor fine samples), as a recorded length is
        st.fixed_dictionaries({'kind': st.just('steps'), 'k': st.integers(1, 400), 'ulps': st.sampled_from([0, 0, 0, 1, -1])}),
        # close to a block boundary but clearly (more than 1e-9 blocks) on one side of it
        st.fixed_dictionaries({'kind': st.just('near'), 'k': st.integers(1, 200), 'side': st.sampled_from([1, -1]),
                               'eps': st.sampled_from([3e-9, 1e-8, 1e-7, 5e-7, 1e-6, 1e-5])}))


def strategy(tier):
    return st.fixed_dictionaries({
        'sr': st.sampled_from(RATES), 'B': st.sampled_from(BRANCHES), 'taps': st.sampled_from(TAPS),
        'nch': st.sampled_from(NCH), 'na': st.sampled_from(NA), 'npol': st.sampled_from([1, 2]),
        'nbits': st.sampled_from([8, 4]), 'm': st.sampled_from(MS), 'nblocks': st.sampled_from(NBLK),
        'ascending': st.booleans(),
        'durs': st.lists(dur_strategy(), min_size=1, max_size=4),
        'fftlength': st.sampled_from([1, 8, 256, 1024, 1048576]), 'int_factor': st.integers(1, 60),
        'tchans_per_block': st.integers(1, 64),
        'record': st.booleans(), 'nsb': st.integers(1, 6), 'bpf': st.sampled_from([1, 2, 3, 128]),
        'before': st.sampled_from([None, None, 'preview_stream', 'aborted_record', 'earlier_record']), 'k': st.integers(1, 50),
        # array sources: per-antenna delays (samples) of the shared background
        'delays': st.one_of(st.just([0] * 8), st.lists(st.integers(0, 6), min_size=8, max_size=8)),
        # afterwards a backend is built on the recording just made and records again (equal / longer / shorter request)
        'redo': st.sampled_from([None, None, 'equal', 'longer', 'longer', 'shorter']), 'redo_mode': st.sampled_from(['num_blocks', 'obs_length']),
    })


def enumerate_cases(tier):
    if tier != 'thorough':
        return
    for sr, B, taps, nch, na, npol, nbits, m, nb in itertools.product(RATES, BRANCHES, TAPS, NCH, NA, [1, 2], [8, 4], MS, NBLK):
        yield dict(sr=sr, B=B, taps=taps, nch=nch, na=na, npol=npol, nbits=nbits, m=m, nblocks=nb, ascending=bool((m + nb) % 2),
                   durs=[dict(kind='multiple', k=nb, ulps=0), dict(kind='multiple', k=nb + 1, ulps=-1), dict(kind='generic', x=nb + 0.5)],
                   fftlength=256, int_factor=4, tchans_per_block=16, record=False, nsb=1, enumerated=True)


def make_backend(c):
    from setigen.voltage import antenna as AN, backend as BE, quantization as Q, polyphase_filterbank as P
    B = min(c['B'], 4096)
    if c['na'] > 1:
        src = AN.MultiAntennaArray(num_antennas=c['na'], sample_rate=c['sr'], fch1=6e9, ascending=c['ascending'],
                                   num_pols=c['npol'], delays=list(c.get('delays', [0] * 8))[:c['na']], seed=1)
        for a in src.antennas:
            for s in a.streams:
                s.add_noise(0, 1)
        for s in src.bg_streams:
            s.add_noise(0, 0.5)
    else:
        src = AN.Antenna(sample_rate=c['sr'], fch1=6e9, ascending=c['ascending'], num_pols=c['npol'], seed=1)
        for s in src.streams:
            s.add_noise(0, 1)
    bps = 2 * c['npol'] * c['nbits'] // 8
    spb = c['taps'] * c['m']
    block_size = spb * c['na'] * c['nch'] * bps
    nch = min(c['nch'], B // 2)
    be = BE.RawVoltageBackend(src, digitizer=Q.RealQuantizer(num_bits=8),
                              filterbank=P.PolyphaseFilterbank(num_taps=c['taps'], num_branches=B),
                              requantizer=Q.ComplexQuantizer(num_bits=c['nbits']), start_chan=0, num_chans=nch,
                              block_size=block_size, blocks_per_file=c.get('bpf', 128), num_subblocks=c['nsb'])
    return src, be, dict(bps=bps, spb=spb, block_size=block_size, nch=nch, B=B)


def run_case(case, ctx):
    stg = core.import_setigen()
    from setigen.voltage import backend as BE, level_utils
    obs = core.Obs()
    c = case
    ok, built = core.call(obs, 'construct', make_backend, c)
    if not ok:
        return obs
    src, be, z = built
    B, spb, bps = z['B'], z['spb'], z['bps']
    sr = Fraction(c['sr'])
    tbin = Fraction(B) / sr
    tpb = spb * tbin
    obs.cls('array' if c['na'] > 1 else 'single', f'bits={c["nbits"]}')
    if c['na'] > 1 and any(list(c.get('delays', [0] * 8))[:c['na']]):
        obs.cls('array_with_delays')
    if c.get('enumerated'):
        obs.cls('enumerated')
    obs.nontrivial = True
    # ---- constructor-derived sizes ------------------------------------------------------------
    if be.samples_per_block != spb:
        obs.fail('samples_per_block', f'{be.samples_per_block} vs {spb}')
    if be.bytes_per_sample != bps:
        obs.fail('bytes_per_sample', f'{be.bytes_per_sample} vs {bps}')
    if abs(Fraction(be.time_per_block) - tpb) > Fraction(1, 10 ** 15) * tpb:
        obs.fail('time_per_block', f'{be.time_per_block!r} vs {float(tpb)!r}')
    if abs(Fraction(be.tbin) - tbin) > Fraction(1, 10 ** 15) * tbin:
        obs.fail('tbin', f'{be.tbin!r}')
    # ---- number of blocks for a duration --------------------------------------------------------
    for d in c['durs']:
        if d['kind'] == 'generic':
            T = float(d['x'] * tpb)
        elif d['kind'] == 'near':
            T = float((d['k'] + d['side'] * Fraction(d['eps'])) * tpb)
            obs.cls('near_boundary')
        else:
            if d['kind'] == 'steps':
                T = float(d['k'] * Fraction(c['int_factor']) * B * c['fftlength'] / sr)
                obs.cls('exact_multiple_of_integration_step')
            else:
                T = float(d['k'] * tpb)
            for _ in range(abs(d['ulps'])):
                T = math.nextafter(T, math.inf if d['ulps'] > 0 else -math.inf)
            obs.cls('exact_multiple')
        if T < 0:
            continue
        x = Fraction(T) / tpb
        lo = math.floor(x)
        allowed = {lo}
        frac = x - lo
        # "within 1e-9 of a block boundary may resolve either way"; a double cannot place a duration of 1e7 blocks more
        # finely than a few 1e-9 blocks, so the window is never narrower than four ulps of the block count
        win = max(Fraction(1, 10 ** 9), 4 * Fraction(gen.ulp(max(float(x), 1.0))))
        if frac < win and lo > 0:
            allowed.add(lo - 1)
        if 1 - frac < win:
            allowed.add(lo + 1)
        ok, n = core.call(obs, 'get_num_blocks', be.get_num_blocks, T)
        if ok and int(n) not in allowed:
            obs.fail('get_num_blocks', f'{n} for T={T!r} = {float(x)!r} blocks; allowed {sorted(allowed)}')
        ok, ns = core.call(obs, 'get_total_obs_num_samples[obs_length]', BE.get_total_obs_num_samples, obs_length=T,
                           length_mode='obs_length', num_antennas=c['na'], sample_rate=c['sr'], block_size=z['block_size'],
                           num_bits=c['nbits'], num_pols=c['npol'], num_branches=B, num_chans=z['nch'])
        if ok and int(ns) not in {a * spb * B for a in allowed}:
            obs.fail('helper_total_samples_obs_length', f'{ns} for {float(x)!r} blocks; spb*B={spb * B}')
        ok, pd = core.call(obs, 'params_from_backend', stg.params_from_backend, obs_length=T, sample_rate=c['sr'],
                           num_branches=B, fftlength=c['fftlength'], int_factor=c['int_factor'])
        if ok:
            df = sr / B / c['fftlength']
            dt = Fraction(c['int_factor']) / df
            xt = Fraction(T) / dt
            lt = math.floor(xt)
            # the number of whole integration steps in T, from exact rationals: a T at or just above k steps holds k of
            # them (never k-1: that would be the float quotient landing below the integer); a T that the float rounding
            # of an exact multiple left within 1e-9 steps below k may count k or k-1
            al = {lt}
            if 1 - (xt - lt) < max(Fraction(1, 10 ** 9), 4 * Fraction(gen.ulp(max(float(xt), 1.0))), xt / 10 ** 12):
                al.add(lt + 1)
            if pd['tchans'] not in al:
                obs.fail('params_from_backend_tchans', f'{pd["tchans"]} for {float(xt)!r} steps')
            if abs(Fraction(pd['df']) - df) > Fraction(1, 10 ** 14) * df or abs(Fraction(pd['dt']) - dt) > Fraction(1, 10 ** 14) * dt:
                obs.fail('params_from_backend_resolution', f'{pd["df"]} {pd["dt"]}')
            # consistent with the backend's own resolution
            if abs(pd['df'] - abs(be.chan_bw) / c['fftlength']) > 1e-12 * pd['df'] or \
                    abs(pd['dt'] - be.tbin * c['fftlength'] * c['int_factor']) > 1e-12 * pd['dt']:
                obs.fail('params_from_backend_vs_backend', '')
    # ---- helpers ------------------------------------------------------------------------------------
    ok, ns = core.call(obs, 'get_total_obs_num_samples[num_blocks]', BE.get_total_obs_num_samples, num_blocks=c['nblocks'],
                       length_mode='num_blocks', num_antennas=c['na'], sample_rate=c['sr'], block_size=z['block_size'],
                       num_bits=c['nbits'], num_pols=c['npol'], num_branches=B, num_chans=z['nch'])
    if ok and int(ns) != c['nblocks'] * spb * B:
        obs.fail('helper_total_samples_num_blocks', f'{ns} vs {c["nblocks"] * spb * B}')
    ok, bs = core.call(obs, 'get_block_size', BE.get_block_size, num_antennas=c['na'], tchans_per_block=c['tchans_per_block'],
                       num_bits=c['nbits'], num_pols=c['npol'], num_branches=B, num_chans=z['nch'],
                       fftlength=c['fftlength'], int_factor=c['int_factor'])
    if ok and int(bs) != c['tchans_per_block'] * c['fftlength'] * c['int_factor'] * c['na'] * z['nch'] * bps:
        obs.fail('get_block_size', f'{bs}')
    ok, udr = core.call(obs, 'get_unit_drift_rate', level_utils.get_unit_drift_rate, be, c['fftlength'], c['int_factor'])
    if ok:
        want = (sr / B / c['fftlength']) / (tbin * c['fftlength'] * c['int_factor'])
        if abs(abs(Fraction(float(udr))) - want) > Fraction(1, 10 ** 13) * want:
            obs.fail('get_unit_drift_rate', f'{udr!r} vs {float(want)!r}')
    # ---- observation length / total samples as set by record(); actual recording for tiny configs ----
    small = B <= 64 and c['nblocks'] <= 5 and spb * c['nblocks'] * B * c['na'] <= 200000
    nb = c['nblocks']
    if c['record'] and small:
        obs.cls('recorded')
        if nb > c.get('bpf', 128):
            obs.cls('recorded_multi_file')
        counter = {'n': 0, 'calls': 0}
        orig = src.get_samples

        def counting(num_samples):
            counter['n'] += int(num_samples)
            counter['calls'] += 1
            return orig(num_samples)
        before = c.get('before')
        if before == 'preview_stream' and c['na'] == 1:
            # a user looks at k samples of one polarisation stream directly before recording
            obs.cls('before=preview_stream')
            core.call(obs, 'stream.get_samples', src.x.get_samples, c.get('k', 7))
        elif before in ('aborted_record', 'earlier_record'):
            obs.cls('before=' + before)
            state = {'n': 0}

            def flaky(num_samples):
                state['n'] += 1
                if before == 'aborted_record' and state['n'] == 2:
                    raise KeyboardInterrupt()
                return orig(num_samples)
            src.get_samples = flaky
            try:
                be.record(output_file_stem=ctx.path('earlier'), num_blocks=max(nb, 2), length_mode='num_blocks', header_dict={},
                          digitize=True, load_template=False, verbose=False)
            except KeyboardInterrupt:
                pass
        src.get_samples = counting
        t_before = Fraction(src.t_start)
        stem = ctx.path('acc')
        hd = {}
        ok, _ = core.call(obs, 'record', lambda: be.record(output_file_stem=stem, num_blocks=nb, length_mode='num_blocks',
                                                           header_dict=hd, digitize=True, load_template=False, verbose=False))
        if not ok:
            return obs
        want_samples = nb * spb * B + c['taps'] * B
        if counter['n'] != want_samples:
            obs.fail('samples_drawn', f'{counter["n"]} vs {want_samples} (n={nb} spb={spb} B={B} taps={c["taps"]} nsb={c["nsb"]})')
        adv = Fraction(src.t_start) - t_before
        if abs(adv - want_samples / sr) > (counter['calls'] + 4) * Fraction(gen.ulp(float(want_samples / sr))):
            obs.fail('clock_advance', f'{float(adv)!r} vs {float(want_samples / sr)!r}')
        if be.total_obs_num_samples != nb * spb * B:
            obs.fail('total_obs_num_samples', f'{be.total_obs_num_samples} vs {nb * spb * B}')
        if abs(Fraction(be.obs_length) - nb * tpb) > Fraction(1, 10 ** 15) * nb * tpb:
            obs.fail('obs_length', f'{be.obs_length!r} vs {float(nb * tpb)!r}')
        try:
            _, blocks = volt.read_payloads(stem)
        except ref_guppi.RawFormatError as e:
            obs.fail('unparseable', str(e)[:200])
            return obs
        if len(blocks) != nb:
            obs.fail('blocks_written', f'{len(blocks)} vs {nb}')
        for j, b in enumerate(blocks):
            h = b['header']
            if int(h['PKTIDX']) != j * spb or int(h['PKTSTOP']) - int(h['PKTSTART']) != nb * spb:
                obs.fail('pkt_accounting', f'block {j}: PKTIDX {h["PKTIDX"]} PKTSTART {h["PKTSTART"]} PKTSTOP {h["PKTSTOP"]}')
                break
            if abs(Fraction(float(h['SCANLEN'])) - nb * tpb) > Fraction(1, 10 ** 12) * nb * tpb:
                obs.fail('scanlen', f'{h["SCANLEN"]} vs {float(nb * tpb)!r}')
                break
        # ---- a backend built on that recording (injection onto existing data): same accounting, and a request beyond
        # the input records, and accounts for, the blocks the input holds
        if c.get('redo') and not obs.violations and len(blocks) == nb:
            from setigen.voltage import antenna as AN, quantization as Q, polyphase_filterbank as P
            obs.cls('from_data_backend', 'from_data_request=' + c['redo'])
            src2 = AN.Antenna(sample_rate=c['sr'], fch1=6e9, ascending=c['ascending'], num_pols=c['npol'], seed=2) if c['na'] == 1 else \
                AN.MultiAntennaArray(num_antennas=c['na'], sample_rate=c['sr'], fch1=6e9, ascending=c['ascending'], num_pols=c['npol'], seed=2)
            fb = P.PolyphaseFilterbank(num_taps=c['taps'], num_branches=B)
            ok, be2 = core.call(obs, 'from_data', lambda: BE.RawVoltageBackend.from_data(
                stem, src2, digitizer=Q.RealQuantizer(num_bits=8), filterbank=fb, start_chan=0, num_subblocks=c['nsb']))
            if ok:
                if (be2.samples_per_block, be2.block_size, be2.num_chans) != (spb, z['block_size'], z['nch']) or \
                        abs(Fraction(be2.time_per_block) - tpb) > Fraction(1, 10 ** 12) * tpb:
                    obs.fail('from_data_sizes', f'{be2.samples_per_block} {be2.block_size} {be2.num_chans} {be2.time_per_block!r} vs {spb} {z["block_size"]} {z["nch"]} {float(tpb)!r}')
                req = {'equal': nb, 'longer': nb + 2, 'shorter': max(1, nb - 1)}[c['redo']]
                n2 = min(req, nb)
                stem2 = ctx.path('acc2')
                if c.get('redo_mode') == 'obs_length':
                    kw2 = dict(obs_length=float(req * tpb) * (1 + 1e-6), length_mode='obs_length')
                else:
                    kw2 = dict(num_blocks=req, length_mode='num_blocks')
                ok, _ = core.call(obs, 'record[from_data]', lambda: be2.record(output_file_stem=stem2, header_dict={}, digitize=True,
                                                                             load_template=False, verbose=False, **kw2))
                if ok:
                    try:
                        _, blocks2 = volt.read_payloads(stem2)
                    except ref_guppi.RawFormatError as e:
                        obs.fail('unparseable_from_data', str(e)[:200])
                        return obs
                    tag = c['redo']
                    if len(blocks2) != n2 or be2.num_blocks != n2:
                        obs.fail(f'from_data_blocks:{tag}', f'{len(blocks2)} written, num_blocks {be2.num_blocks}, expected {n2} (requested {req}, input {nb})')
                    elif be2.total_obs_num_samples != n2 * spb * B or abs(Fraction(be2.obs_length) - n2 * tpb) > Fraction(1, 10 ** 12) * n2 * tpb:
                        obs.fail(f'from_data_accounting:{tag}', f'total {be2.total_obs_num_samples} obs_length {be2.obs_length!r} vs {n2 * spb * B} / {float(n2 * tpb)!r} (requested {req}, input {nb})')
                    else:
                        for j, b in enumerate(blocks2):
                            h = b['header']
                            if abs(Fraction(float(h['SCANLEN'])) - n2 * tpb) > Fraction(1, 10 ** 9) * n2 * tpb:
                                obs.fail(f'from_data_scanlen:{tag}', f'{h["SCANLEN"]} vs {float(n2 * tpb)!r} (requested {req}, input {nb})')
                                break
    else:
        # the same bookkeeping without running the pipeline: replicate record()'s length arithmetic through the API
        be.num_blocks = nb
        be.obs_length = None
        ok, _ = core.call(obs, 'record_bookkeeping', _bookkeeping_only, be, nb)
        if ok and (be.total_obs_num_samples is None or be.obs_length is None):
            obs.count('bookkeeping_unobservable_without_recording')     # ordering inside record() changed: not a defect
        elif ok:
            if be.total_obs_num_samples != nb * spb * B:
                obs.fail('total_obs_num_samples', f'{be.total_obs_num_samples} vs {nb * spb * B} (n={nb} spb={spb} B={B} sr={c["sr"]})')
            if abs(Fraction(be.obs_length) - nb * tpb) > Fraction(1, 10 ** 15) * nb * tpb:
                obs.fail('obs_length', f'{be.obs_length!r} vs {float(nb * tpb)!r}')
    return obs


class _Stop(Exception):
    pass


def _bookkeeping_only(be, nb):
    """Run record() up to the point where it starts collecting data (length bookkeeping and header set-up are
    done before): the antenna's reset_start is replaced by a stopper."""
    src = be.antenna_source
    orig = src.reset_start

    def stop():
        raise _Stop()
    src.reset_start = stop
    try:
        be.record(output_file_stem='/nonexistent/never_written', num_blocks=nb, length_mode='num_blocks',
                  header_dict={}, digitize=True, load_template=False, verbose=False)
    except _Stop:
        pass
    finally:
        src.reset_start = orig
