"""C19 - splitting utilities tile the band and the array exactly."""
import os

import numpy as np
from hypothesis import strategies as st

from vp import core, gen, ref_sigproc

PROP_ID = 'C19'
LEVEL = 'exploration'
BUDGET = {'quick': 4000, 'thorough': 60000}
RULE = ('Two generated families. Files: an independent SIGPROC writer produces filterbank files with nchans in [2,400], '
        '1..8 integrations, header fch1 in {1000, 6095.214842353016, 8400.5, 1420.40575} MHz, foff of either sign with '
        'magnitude in {2.7939677238464355e-6, 1e-6, 1e-7, 3.3e-6, (1/3)e-3} MHz and channel-coded content '
        '(value = 1000 t + c); Hypothesis draws fchans <= nchans, shift in [1, fchans+5] (exact multiples, remainders, '
        'single piece) and tchans <= nints. The generator must yield floor((nchans-fchans)/shift)+1 Waterfalls, piece i '
        'holding channels [i*shift, i*shift+fchans) (data exact, frequencies of Frame(piece) to 64 ulp) and the first '
        'tchans integrations; split_fil must write as many loadable files with the same content; the parameter-'
        'distribution helpers must return arrays of that length. Arrays: H,W in [1,40], tile sizes, shifts and trim '
        'flags: tiles must equal the sub-blocks at multiples of the shifts in row-major order, partition the array when '
        'shift == size (every element exactly once), and trimming must keep exactly the full-size tiles. Non-trivial: '
        '>= 2 pieces / tiles.')
ASSUMPTIONS = ['blimpy is the container reader used by the library; the independent writer is the reference for content',
               'tile model: tile (ky,kx) = data[ky*ts : min(tn+ky*ts, H), kx*fs : min(fn+kx*fs, W)] until the stop reaches the edge']
REQUIRED_CLASSES = ['kind=file', 'kind=array', 'exact_multiple', 'remainder', 'single_piece', 'foff<0', 'foff>0', 'ragged_untrimmed',
                    'trimmed', 'shift=size', 'shift!=size', 'split_fil', 'distributions', 'earlier=same_path', 'earlier=same_outdir']

FOFFS = [2.7939677238464355e-6, 1e-6, 1e-7, 3.3e-6, 1e-3 / 3]
FCH1S = [1000.0, 6095.214842353016, 8400.5, 1420.40575]


@st.composite
def strategy_(draw, tier):
    if draw(st.booleans()):
        nch = draw(st.one_of(st.integers(2, 40), st.integers(2, 400)))
        fch = draw(st.integers(1, nch))
        kind = draw(st.sampled_from(['any', 'any', 'multiple', 'single']))
        if kind == 'multiple':
            k = draw(st.integers(1, 12))
            fch = max(1, nch // k)
            nch = fch * k
            shift = None if draw(st.booleans()) else fch
        elif kind == 'single':
            fch = nch
            shift = draw(st.one_of(st.none(), st.integers(1, fch + 5)))
        else:
            shift = draw(st.one_of(st.none(), st.integers(1, fch + 5)))
        nints = draw(st.integers(1, 8))
        return dict(kind='file', nchans=nch, fchans=fch, shift=shift, nints=nints,
                    tchans=draw(st.one_of(st.none(), st.integers(1, nints))),
                    fch1=draw(st.sampled_from(FCH1S)), foff=draw(st.sampled_from(FOFFS)) * draw(st.sampled_from([1, -1])),
                    tsamp=draw(st.sampled_from([18.253611008, 1.0, 0.1])),
                    extra=draw(st.sampled_from(['none', 'none', 'split_fil', 'dist'])),
                    earlier=draw(st.sampled_from([None, None, 'same_path', 'same_outdir'])))
    H, W = draw(st.integers(1, 40)), draw(st.integers(1, 40))
    same = draw(st.booleans())
    fn = draw(st.one_of(st.none(), st.integers(1, W + 3)))
    tn = draw(st.one_of(st.none(), st.integers(1, H + 3)))
    return dict(kind='array', H=H, W=W, fn=fn, tn=tn,
                fs=None if same else draw(st.one_of(st.none(), st.integers(1, W + 3))),
                ts=None if same else draw(st.one_of(st.none(), st.integers(1, H + 3))),
                f_trim=draw(st.booleans()), t_trim=draw(st.booleans()))


def strategy(tier):
    return strategy_(tier)


def tiles_model(data, fn, tn, fs, ts):
    H, W = data.shape
    fn = W if fn is None else fn
    tn = H if tn is None else tn
    fs = fn if fs is None else fs
    ts = tn if ts is None else ts
    out = []
    ky = 0
    while True:
        y0, y1 = ky * ts, min(tn + ky * ts, H)
        kx = 0
        while True:
            x0, x1 = kx * fs, min(fn + kx * fs, W)
            out.append(data[y0:y1, x0:x1])
            if x1 >= W:
                break
            kx += 1
        if y1 >= H:
            break
        ky += 1
    return out, fn, tn, fs, ts


def run_array(case, obs):
    stg = core.import_setigen()
    H, W = case['H'], case['W']
    data = np.arange(H * W, dtype=float).reshape(H, W)
    model, fn, tn, fs, ts = tiles_model(data, case['fn'], case['tn'], case['fs'], case['ts'])
    keep = [t for t in model if (not case['t_trim'] or t.shape[0] == tn) and (not case['f_trim'] or t.shape[1] == fn)]
    ragged = len({t.shape for t in keep}) > 1
    obs.cls('kind=array', 'shift=size' if (fs == fn and ts == tn) else 'shift!=size')
    if case['t_trim'] or case['f_trim']:
        obs.cls('trimmed')
    if ragged:
        obs.cls('ragged_untrimmed')
    tag = 'ragged' if ragged else 'regular'
    ok, got = core.call(obs, f'split_array[{tag}]', stg.split_array, data, f_sample_num=case['fn'], t_sample_num=case['tn'],
                        f_shift=case['fs'], t_shift=case['ts'], f_trim=case['f_trim'], t_trim=case['t_trim'])
    if not ok:
        return
    got = list(got)
    obs.nontrivial = len(model) >= 2
    if len(got) != len(keep):
        obs.fail(f'tile_count:{tag}', f'{len(got)} vs {len(keep)} (array {H}x{W}, tile {tn}x{fn}, shift {ts}x{fs}, trim t={case["t_trim"]} f={case["f_trim"]})')
        return
    for k, (g, w) in enumerate(zip(got, keep)):
        g = np.asarray(g)
        if g.shape != w.shape or not np.array_equal(g, w):
            obs.fail(f'tile_content:{tag}', f'tile {k}: shape {g.shape} vs {w.shape}')
            return
    if fs == fn and ts == tn and not case['t_trim'] and not case['f_trim']:
        allv = np.concatenate([np.asarray(g).ravel() for g in got]) if got else np.zeros(0)
        if sorted(allv.tolist()) != data.ravel().tolist():
            obs.fail('not_a_partition', f'{len(allv)} elements vs {data.size}')
    if not np.array_equal(data, np.arange(H * W, dtype=float).reshape(H, W)):
        obs.fail('input_modified', '')


def run_case(case, ctx):
    stg = core.import_setigen()
    obs = core.Obs()
    if case['kind'] == 'array':
        run_array(case, obs)
        return obs
    nch, fch, nints = case['nchans'], case['fchans'], case['nints']
    shift = case['shift'] if case['shift'] is not None else fch
    tch = case['tchans'] if case['tchans'] is not None else nints
    content = (1000.0 * np.arange(nints)[:, None] + np.arange(nch)[None, :]).astype(np.float32)
    path = ctx.path('band.fil')
    outdir = ctx.path('pieces')
    earlier = case.get('earlier')
    if earlier:
        # the same file name (or the same output directory) was used before in this session for ANOTHER observation
        obs.cls('earlier=' + earlier)
        nch0 = max(fch + 3, nch // 2 + 1)
        c0 = (5000.0 + 1000.0 * np.arange(nints + 1)[:, None] + np.arange(nch0)[None, :]).astype(np.float32)
        p0 = path if earlier == 'same_path' else ctx.path('other.fil')
        ref_sigproc.write_fil(p0, c0, case['fch1'] + 123.0, -case['foff'], case['tsamp'])
        try:
            if earlier == 'same_path':
                list(stg.split_waterfall_generator(p0, fch, tchans=None, f_shift=case['shift']))
                stg.get_fs(p0), stg.get_ts(p0)
            else:
                stg.split_fil(p0, outdir, fch, tchans=None, f_shift=case['shift'])
        except BaseException as exc:
            who, where = core.classify_exception(exc)
            if who != 'setigen':
                raise
            obs.fail('raises:earlier_use:' + where, repr(exc)[:200])
            return obs
    ref_sigproc.write_fil(path, content, case['fch1'], case['foff'], case['tsamp'])
    npieces = (nch - fch) // shift + 1
    obs.cls('kind=file', 'foff<0' if case['foff'] < 0 else 'foff>0',
            'single_piece' if npieces == 1 else ('exact_multiple' if (nch - fch) % shift == 0 else 'remainder'))
    obs.nontrivial = npieces >= 2
    res = 'fine' if abs(case['foff']) < 1e-5 else 'coarse'

    def pieces():
        return list(stg.split_waterfall_generator(path, fch, tchans=case['tchans'], f_shift=case['shift']))
    ok, wfs = core.call(obs, 'split_waterfall_generator', pieces)
    if not ok:
        return obs
    if len(wfs) != npieces:
        obs.fail(f'piece_count:{res}:{"multiple" if (nch - fch) % shift == 0 else "remainder"}',
                 f'{len(wfs)} vs {npieces} (nchans {nch}, fchans {fch}, shift {shift}, foff {case["foff"]!r} MHz, fch1 {case["fch1"]!r})')
    ftol = 64 * gen.ulp(case['fch1'] * 1e6 + nch * abs(case['foff']) * 1e6)
    for i, wf in enumerate(wfs[:npieces]):
        c0 = i * shift
        want = content[:tch, c0:c0 + fch]                    # file order
        ok, d = core.call(obs, 'get_data', stg.get_data, wf)
        if not ok:
            break
        d = np.asarray(d)
        if d.shape != want.shape or not np.array_equal(d, want):
            what = f'shape {d.shape} vs {want.shape}' if d.shape != want.shape else f'first value {d[0, 0]} vs {want[0, 0]}'
            obs.fail(f'piece_data:{res}', f'piece {i} of {npieces}: {what} (nchans {nch}, fchans {fch}, shift {shift}, foff {case["foff"]!r})')
            break
        ok, fr = core.call(obs, 'Frame(piece)', stg.Frame, wf)
        if not ok:
            break
        f_file = (case['fch1'] + (c0 + np.arange(fch)) * case['foff']) * 1e6       # Hz, file order
        f_mem = np.sort(f_file)
        if np.asarray(fr.fs).shape != f_mem.shape or np.max(np.abs(np.asarray(fr.fs) - f_mem)) > ftol:
            e = np.max(np.abs(np.asarray(fr.fs) - f_mem)) if np.asarray(fr.fs).shape == f_mem.shape else None
            obs.fail(f'piece_frequencies:{res}', f'piece {i}: max deviation {e} Hz (df {abs(case["foff"]) * 1e6} Hz)')
            break
        mem = want if case['foff'] > 0 else want[:, ::-1]
        if fr.data.shape != mem.shape or not np.array_equal(fr.data, mem):
            obs.fail('piece_frame_data', f'piece {i}')
            break
    if case['extra'] == 'split_fil':
        obs.cls('split_fil')
        ok, fns = core.call(obs, 'split_fil', stg.split_fil, path, outdir, fch, tchans=case['tchans'], f_shift=case['shift'])
        if ok:
            if len(fns) != npieces:
                obs.fail('split_fil_count', f'{len(fns)} vs {npieces}')
            for i, fn in enumerate(list(fns)[:npieces]):
                try:
                    h, d = ref_sigproc.read_fil(str(fn))
                except Exception as e:
                    obs.fail('split_fil_unreadable', repr(e)[:200])
                    break
                c0 = i * shift
                want = content[:tch, c0:c0 + fch]
                if h['nchans'] != fch or d.shape != want.shape or not np.array_equal(d, want):
                    obs.fail('split_fil_content', f'file {i}: nchans {h["nchans"]} shape {d.shape} vs {want.shape}')
                    break
                if abs(h['fch1'] - (case['fch1'] + c0 * case['foff'])) * 1e6 > ftol or abs(h['foff'] - case['foff']) > 1e-15:
                    obs.fail('split_fil_header', f'file {i}: fch1 {h["fch1"]!r} foff {h["foff"]!r}')
                    break
                ok2, fr = core.call(obs, 'Frame(split file)', stg.Frame, str(fn))
                if ok2 and fr.data.shape != want.shape:
                    obs.fail('split_fil_not_loadable', f'{fr.data.shape}')
                    break
    elif case['extra'] == 'dist':
        obs.cls('distributions')
        ok, res3 = core.call(obs, 'get_parameter_distributions', stg.get_parameter_distributions, path, fch,
                             tchans=case['tchans'], f_shift=case['shift'])
        if ok and any(len(a) != npieces for a in res3):
            obs.fail('distribution_length', f'{[len(a) for a in res3]} vs {npieces}')
        ok, means = core.call(obs, 'get_mean_distribution', stg.get_mean_distribution, path, fch,
                              tchans=case['tchans'], f_shift=case['shift'])
        if ok and len(means) != npieces:
            obs.fail('mean_distribution_length', f'{len(means)} vs {npieces}')
    return obs
