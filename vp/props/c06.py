"""C06 - injection is additive, confined to its bounding range, and preserves frame state."""
import copy
import os

import numpy as np
from hypothesis import strategies as st

from vp import core, gen, sig as S, ref_sigproc

PROP_ID = 'C06'
LEVEL = 'exploration'
BUDGET = {'quick': 4000, 'thorough': 80000}
RULE = ('Histories: Hypothesis draws a frame with prior content (zeros / seeded noise through add_noise / '
        'float32 data loaded from a .fil written by an independent SIGPROC writer / a frame that was already injected as a member of a cadence), occasionally more than 2**16 channels wide, 1..4 signal descriptions as '
        'in C01 each with its own bounding-range kind (none, inside, clipped low/high, wholly below/above, '
        'reversed) and options, and a permutation. After every injection: data_after == (data_before + returned) '
        'in the frame dtype exactly; columns outside the range bit-identical and zero in the return; inside '
        'columns equal the unbounded signal computed on a twin frame; axes, shape, noise estimates, metadata, '
        'random state, resolutions unchanged. The same signals injected in the permuted order must give the '
        'same final data within n ulp and final - initial == sum(returned). Non-trivial: the signal is non-zero '
        'somewhere and (a range is given or prior content non-zero or >=2 injections).')
ASSUMPTIONS = ['boundary columns of a range (within half a channel of either end) may be included or not',
               'bounded vs unbounded agree to 1e-10 relative (different sub-grid origin under integrate_f_profile)',
               'randomised path/profile families carry their own seeds and are rebuilt per injection']
REQUIRED_CLASSES = ['helper_injection', 'noise_stats_first_read_after_injection', 'prior=zeros', 'prior=noise', 'prior=file32', 'prior=via_cadence', 'prior=negzero', 'wide_frame', 'range=inside', 'range=clip_low', 'range=clip_high',
                    'range=below', 'range=above', 'range=reversed', 'n>=2', 'asc', 'desc']


@st.composite
def strategy_(draw, tier):
    g = draw(gen.geometry(max_fchans=128 if tier == 'thorough' else 40, max_tchans=10, routes=('sizes', 'shape', 'data')))
    wide = draw(st.integers(0, 24)) == 0
    if wide:
        # real spectrograms are 2**20 channels wide: sizes around and beyond 2**16 must behave like small ones
        g['fchans'] = draw(st.sampled_from([65536 + 500, 2 ** 16, 70001, 2 ** 17 + 3]))
        g['tchans'] = draw(st.integers(1, 2))
        g['fch1'] = max(g['fch1'], 4.0 * g['fchans'] * g['df'] + 1.0)
        g['fch1'] = min(g['fch1'], g['df'] * 2.0 ** 40)
    n = draw(st.integers(1, 2 if wide else 4))
    injections = []
    for _ in range(n):
        # array bandpass / array path need per-range shapes: keep to forms valid under any range
        sg = dict(path=draw(S.path_strategy()), t=draw(S.t_strategy()), f=draw(S.f_strategy()),
                  bp=draw(st.sampled_from([{'kind': 'none'}, {'kind': 'constant', 'level': 0.7},
                                           {'kind': 'custom', 'a': 1.3}, {'kind': 'float', 'level': 0.4}])))
        injections.append(dict(sig=sg, opts=draw(S.opts_strategy()), range=draw(S.range_strategy())))
    perm = draw(st.permutations(list(range(n))))
    return dict(g=g, wide=wide, prior=draw(st.sampled_from(['zeros', 'noise', 'noise', 'file32', 'via_cadence', 'negzero'])),
                prior_seed=draw(st.integers(0, 10 ** 6)), inj=injections, perm=list(perm),
                # the noise estimates are looked at for the first time only after the injections
                late_stats=draw(st.sampled_from([False, False, False, True])),
                helper=draw(st.one_of(st.none(), st.fixed_dictionaries({
                    'u': gen.finite(-0.1, 1.1), 'drift': st.one_of(st.just(0.0), gen.finite(-2, 2)), 'level': gen.finite(0.1, 10),
                    'w': gen.finite(0.2, 5), 'type': st.sampled_from(['sinc2', 'box', 'gaussian', 'lorentzian', 'voigt']),
                    'smear': st.booleans()}))))


def strategy(tier):
    return strategy_(tier)


def make_prior(stg, case, ctx):
    g = case['g']
    prior = case['prior']
    if prior == 'file32':
        rs = np.random.RandomState(case['prior_seed'])
        T, N = g['tchans'], g['fchans']
        content = (10 + rs.standard_normal((T, N))).astype(np.float32)     # in-memory (ascending) order
        fmin = g['fch1'] if g['ascending'] else g['fch1'] - (N - 1) * g['df']
        path = ctx.path('prior.fil')
        if g['ascending']:
            ref_sigproc.write_fil(path, content, g['fch1'] * 1e-6, g['df'] * 1e-6, g['dt'])
        else:
            ref_sigproc.write_fil(path, content[:, ::-1], g['fch1'] * 1e-6, -g['df'] * 1e-6, g['dt'])
        fr = stg.Frame(waterfall=path, seed=case['prior_seed'])
        return fr
    fr = gen.make_frame(stg, g, seed=case['prior_seed'])
    if prior == 'via_cadence':
        # the frame was earlier injected as the second member of a cadence (smeared, callable path)
        first = gen.make_frame(stg, dict(g, t_start=g['t_start'] - 1000.0), seed=1)
        cad = stg.Cadence([first, fr])
        mid = float(fr.fs[len(fr.fs) // 2])
        cad.add_signal(stg.constant_path(f_start=mid, drift_rate=0.3 * fr.df / fr.dt), stg.constant_t_profile(level=1.0),
                       stg.gaussian_f_profile(width=3 * fr.df), doppler_smearing=True, smearing_subsamples=3)
    if prior == 'negzero':
        # user-assigned content holding negative zeros (e.g. a product with a negative gain): untouched pixels keep their sign bit
        fr.data[:, ::2] = -0.0
        fr.data[::2, 1::2] = -1.5
    if prior == 'noise':
        fr.add_noise(x_mean=10.0, x_std=1.0, noise_type='gaussian')   # chi2 needs df*dt >= 1 (C11)
    return fr


def snapshot(fr, stats_from=None):
    src = fr if stats_from is None else stats_from
    return dict(fs=np.array(fr.fs, copy=True), ts=np.array(fr.ts, copy=True), shape=tuple(fr.shape),
                nm=copy.deepcopy(src.noise_mean), ns=copy.deepcopy(src.noise_std),
                meta=copy.deepcopy(fr.metadata), rng=copy.deepcopy(fr.rng.bit_generator.state),
                df=fr.df, dt=fr.dt, fch1=fr.fch1, asc=fr.ascending, dtype=fr.data.dtype,
                fchans=fr.fchans, tchans=fr.tchans, t_start=fr.t_start)


def compare_state(obs, fr, s0, tag):
    if not np.array_equal(np.asarray(fr.fs), s0['fs']):
        obs.fail(f'state:fs:{tag}', '')
    if not np.array_equal(np.asarray(fr.ts), s0['ts']):
        obs.fail(f'state:ts:{tag}', '')
    if tuple(fr.shape) != s0['shape'] or fr.data.shape != s0['shape']:
        obs.fail(f'state:shape:{tag}', '')
    if fr.noise_mean != s0['nm'] or fr.noise_std != s0['ns']:
        obs.fail(f'state:noise_stats:{tag}', f'{fr.noise_mean},{fr.noise_std} vs {s0["nm"]},{s0["ns"]}')
    if fr.metadata != s0['meta']:
        obs.fail(f'state:metadata:{tag}', '')
    if fr.rng.bit_generator.state != s0['rng']:
        obs.fail(f'state:rng:{tag}', '')
    if (fr.df, fr.dt, fr.fch1, fr.ascending, fr.fchans, fr.tchans, fr.t_start) != \
            (s0['df'], s0['dt'], s0['fch1'], s0['asc'], s0['fchans'], s0['tchans'], s0['t_start']):
        obs.fail(f'state:params:{tag}', '')
    if fr.data.dtype != s0['dtype']:
        obs.fail(f'state:dtype:{tag}', f'{fr.data.dtype} vs {s0["dtype"]}')


def inject(stg, fr, ax, inj, bounded=True):
    sg, opts = inj['sig'], inj['opts']
    smear = opts['doppler_smearing']
    rng = S.range_of(ax, inj['range']) if bounded else None
    pos, kw = S.call_options(opts, rng)
    return fr.add_signal(S.stg_path(stg, ax, sg['path'], smear), S.stg_t(stg, ax, sg['t']),
                         S.stg_f(stg, ax, sg['f']), S.stg_bp(stg, ax, sg['bp']), *pos, **kw)


def run_case(case, ctx):
    stg = core.import_setigen()
    obs = core.Obs()
    g = case['g']
    ok, fr = core.call(obs, 'prior', make_prior, stg, case, ctx)
    if not ok:
        return obs
    if case.get('wide'):
        obs.cls('wide_frame')
    obs.cls('prior=' + case['prior'], 'asc' if g['ascending'] else 'desc', 'n>=2' if len(case['inj']) >= 2 else 'n=1')
    ax = S.Axes(fr.fs, fr.ts, fr.df, fr.dt)
    initial = fr.data.copy()
    late = bool(case.get('late_stats'))
    twin0 = None
    if late:
        # the expected estimates come from an identically built twin; this frame's own are first read after injecting
        obs.cls('noise_stats_first_read_after_injection')
        ok, twin0 = core.call(obs, 'prior_twin', make_prior, stg, case, ctx)
        if not ok:
            return obs
        if not np.array_equal(twin0.data, fr.data):
            obs.count('prior_twin_differs')        # determinism is C12's subject: fall back to this frame's own estimates
            twin0 = None
    s0 = snapshot(fr, stats_from=twin0)
    twin_geom = dict(g, route='sizes', df=fr.df, dt=fr.dt, fch1=fr.fch1)
    returned = []
    held = []
    any_signal = False
    any_range = False
    for k, inj in enumerate(case['inj']):
        rk = inj['range']['kind']
        obs.cls('range=' + rk)
        before = fr.data.copy()
        ok, ret = core.call(obs, f'add_signal[range={rk}]', inject, stg, fr, ax, inj)
        if not ok:
            return obs
        ret = np.asarray(ret)
        if ret.shape != before.shape:
            obs.fail('return_shape', f'{ret.shape}')
            return obs
        returned.append(ret.astype(np.float64))
        held.append(ret)            # the caller's own reference, as returned
        # additivity, exactly, in the frame's dtype
        want = (before.astype(np.float64) + ret.astype(np.float64)).astype(before.dtype)
        if not np.array_equal(fr.data, want):
            bad = np.argwhere(fr.data != want)
            obs.fail(f'additive:{case["prior"]}', f'{len(bad)} pixels differ, first {bad[0].tolist()}')
        compare_state(obs, fr, s0, f'inj{min(k, 1)}')
        # asking for intensities must not re-estimate anything either
        if fr.noise_std != 0:
            core.call(obs, 'get_intensity', fr.get_intensity, 10.0)
            core.call(obs, 'get_snr', fr.get_snr, 1.0)
            core.call(obs, 'get_noise_stats', fr.get_noise_stats)
            compare_state(obs, fr, s0, 'after_snr_query')
        # confinement
        rng = S.range_of(ax, inj['range'])
        if rng is not None:
            any_range = True
            lo, hi = rng
            eps = max(1e-6 * ax.df, 16 * gen.ulp(ax.fs[-1]))      # the axis itself is only known to an ulp of fmax
            inside = (ax.fs >= lo + ax.df / 2 + eps) & (ax.fs <= hi - ax.df / 2 - eps)
            outside = (ax.fs < lo - ax.df / 2 - eps) | (ax.fs > hi + ax.df / 2 + eps)
            if hi < lo:
                inside[:] = False
                outside[:] = True
            if np.any(ret[:, outside] != 0):
                obs.fail(f'return_nonzero_outside:{rk}', f'{int(np.sum(np.any(ret != 0, axis=0) & outside))} columns')
            if not np.array_equal(fr.data[:, outside], before[:, outside]):
                obs.fail(f'data_touched_outside:{rk}', '')
            elif np.ascontiguousarray(fr.data[:, outside]).tobytes() != np.ascontiguousarray(before[:, outside]).tobytes():
                obs.fail(f'data_touched_outside_bitwise:{rk}', 'equal values, different bits (sign of zero)')
            # bounded == unbounded restricted (twin frame, same seeds)
            tw = gen.make_frame(stg, twin_geom)
            ok, full = core.call(obs, 'add_signal_unbounded', inject, stg, tw, ax, inj, False)
            if ok:
                full = np.asarray(full, dtype=float)
                tol = S.tolerance(ax, inj['sig'], n_smear=inj['opts']['smearing_subsamples'] if inj['opts']['doppler_smearing'] else 0)
                if inj['sig']['f']['kind'] == 'box' and inj['opts']['integrate_f_profile']:
                    # a sub-sample sitting on a box edge may fall on either side: one sub-sample per edge
                    tol += 2.0 * S.amplitude_bound(ax, inj['sig']) / inj['opts']['f_subsamples']
                    obs.count('box_edge_tolerance_cases')
                # never exact: numpy's vectorised exp/sin/... may round differently for arrays of another
                # length or alignment (SIMD body vs scalar remainder), so equal inputs can differ by an ulp
                if np.any(inside):
                    e = float(np.max(np.abs(ret[:, inside] - full[:, inside])))
                    if e > tol:
                        obs.fail(f'bounded_ne_unbounded:{rk}', f'max diff {e} tol {tol}')
                edge = ~(inside | outside)
                for j in np.flatnonzero(edge):
                    if not (np.all(ret[:, j] == 0) or np.max(np.abs(ret[:, j] - full[:, j])) <= tol):
                        obs.fail('boundary_column_neither', f'column {j}')
                        break
                if np.any(full != 0):
                    any_signal = True
        elif np.any(ret != 0):
            any_signal = True
    # the arrays handed back earlier are the caller's: later injections must not change them
    for k, (h, c) in enumerate(zip(held, returned)):
        if not np.array_equal(np.asarray(h, dtype=np.float64), c):
            obs.fail('returned_array_changed_by_later_injection', f'return of injection {k} of {len(held)}')
            break
    # superposition
    total = np.sum(returned, axis=0)
    n = len(returned)
    mag = np.abs(initial.astype(np.float64)) + np.sum(np.abs(returned), axis=0)
    ulp = np.finfo(s0['dtype']).eps
    got = fr.data.astype(np.float64) - initial.astype(np.float64)
    if np.any(np.abs(got - total) > (n + 1) * ulp * mag + 1e-300):
        obs.fail(f'superposition:{case["prior"]}', f'max dev {float(np.max(np.abs(got - total)))}')
    if n >= 2 and case['perm'] != list(range(n)):
        ok, fr2 = core.call(obs, 'prior2', make_prior, stg, case, ctx)
        if ok:
            okall = True
            for k in case['perm']:
                ok, _ = core.call(obs, 'add_signal_permuted', inject, stg, fr2, ax, case['inj'][k])
                okall = okall and ok
            if okall and np.any(np.abs(fr2.data.astype(np.float64) - fr.data.astype(np.float64)) > (n + 1) * ulp * mag + 1e-300):
                obs.fail('order_dependence', f'{float(np.max(np.abs(fr2.data.astype(np.float64) - fr.data)))}')
            obs.cls('permuted')
    # the constant-signal helper is an injection too: same additivity, same untouched state
    hp = case.get('helper')
    if hp is not None and not obs.violations:
        obs.cls('helper_injection')
        before = fr.data.copy()
        f0 = ax.f_of(hp['u'])
        ok, ret = core.call(obs, 'add_constant_signal', lambda: fr.add_constant_signal(
            f_start=f0, drift_rate=hp['drift'] * ax.df / ax.dt, level=hp['level'], width=hp['w'] * ax.df,
            f_profile_type=hp['type'], doppler_smearing=hp['smear']))
        if ok:
            ret = np.asarray(ret)
            if ret.shape != before.shape:
                obs.fail('return_shape:helper', f'{ret.shape}')
            else:
                want = (before.astype(np.float64) + ret.astype(np.float64)).astype(before.dtype)
                if not np.array_equal(fr.data, want):
                    obs.fail('additive:helper', f'{int(np.sum(fr.data != want))} pixels differ')
                compare_state(obs, fr, s0, 'helper')
    obs.nontrivial = any_signal and (any_range or case['prior'] != 'zeros' or n >= 2)
    return obs
