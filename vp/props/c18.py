"""C18 - a cadence is a consistency-guarded list of frames with stable order labels."""
import numpy as np
from hypothesis import strategies as st

from vp import core

PROP_ID = 'C18'
LEVEL = 'exploration'
BUDGET = {'quick': 15000, 'thorough': 150000}
RULE = ('Model-based histories: Hypothesis draws op-lists (<=25 ops: append, extend, +=, insert, '
        'setitem, delitem int/slice, pop, getitem int/slice/list/ndarray/tuple, by_label, set_order) over a '
        'pool of 8 compatible frames (varying tchans/t_start, two value-equal twins, one of opposite orientation with equal '
        'fmin), 7 incompatible frames (df/dt/fchans/fmin, three of them off by a single ulp) and 6 non-frames (two frame-like: a cadence and a look-alike object); order strings mix upper and lower case; a third of the cadences are constructed with t_overwrite; a second cadence may be constructed FROM the cadence and must stay independent; every op is applied to the '
        'cadence and to a plain Python list model in lock-step and identity/order/labels/aggregates are '
        'compared after every op. Non-trivial: >=3 mutating ops including a rejected addition or a '
        'mid-list insertion; distinct by hash of the history.')
ASSUMPTIONS = ['empty index lists are not generated', 'set_order only with orders at least as long as the cadence',
               'slice assignment is not generated (property speaks of item assignment)']
REQUIRED_CLASSES = ['ordered', 'plain', 'op=insert', 'op=setitem', 'op=delitem', 'op=pop', 'op=getitem_list',
                    'op=getitem_slice', 'op=extend', 'op=by_label', 'rejected_nonframe', 'rejected_incompatible',
                    'mid_insert', 'insert_out_of_range', 'op=clone', 'op=swap', 'ordered_from_plain', 'twin_frames_both_members', 'constructed_with_t_overwrite', 'selector_tuple']

N_COMPAT, N_INCOMPAT, N_NON = 8, 7, 6
POOL = N_COMPAT + N_INCOMPAT + N_NON

idx = st.one_of(st.integers(-4, 4), st.integers(-9, 9))
# bias towards compatible frames, but rejected objects must be common
pool_ref = st.one_of(st.integers(0, N_COMPAT - 1), st.integers(0, POOL - 1))
opt = st.one_of(st.none(), st.integers(-9, 9))

_insert = st.fixed_dictionaries({'op': st.just('insert'), 'i': idx, 'v': pool_ref})
_append = st.fixed_dictionaries({'op': st.just('append'), 'v': pool_ref})
op_strategy = st.one_of(
    _append, _insert, _insert, _append,
    st.fixed_dictionaries({'op': st.sampled_from(['extend', 'iadd']),
                           'vs': st.lists(pool_ref, min_size=0, max_size=4)}),
    st.fixed_dictionaries({'op': st.just('insert'), 'i': idx, 'v': pool_ref}),
    st.fixed_dictionaries({'op': st.just('setitem'), 'i': idx, 'v': pool_ref}),
    st.fixed_dictionaries({'op': st.just('delitem'), 'i': idx}),
    st.fixed_dictionaries({'op': st.just('delslice'), 'a': opt, 'b': opt,
                           'c': st.sampled_from([None, 1, 2, -1])}),
    st.fixed_dictionaries({'op': st.just('pop'), 'i': st.one_of(st.none(), idx)}),
    st.fixed_dictionaries({'op': st.just('getitem'), 'i': idx}),
    st.fixed_dictionaries({'op': st.just('getitem_slice'), 'a': opt, 'b': opt,
                           'c': st.sampled_from([None, 1, 2, -1])}),
    st.fixed_dictionaries({'op': st.just('getitem_list'), 'kind': st.sampled_from(['list', 'ndarray', 'tuple']),
                           'ii': st.lists(idx, min_size=1, max_size=5)}),
    st.fixed_dictionaries({'op': st.just('by_label'), 'label': st.sampled_from(list('ABCDXab'))}),
    st.fixed_dictionaries({'op': st.sampled_from(['clone', 'swap'])}),
    st.fixed_dictionaries({'op': st.just('set_order'),
                           'order': st.one_of(st.text(alphabet='ABCD', min_size=1, max_size=12),
                                              st.text(alphabet='ABab', min_size=1, max_size=12))}),
)


def strategy(tier):
    return st.fixed_dictionaries({
        'ordered': st.booleans(),
        # labels are case-sensitive single characters
        'order': st.one_of(st.just('ABACAD'), st.text(alphabet='ABCD', min_size=0, max_size=9), st.text(alphabet='ABab', min_size=0, max_size=9)),
        # constructed with t_overwrite=True and this slew time (start times of the initial frames are rewritten once)
        'overwrite': st.one_of(st.none(), st.none(), st.sampled_from([0.0, 30.0, 7.25])),
        'init': st.one_of(st.lists(st.integers(0, N_COMPAT - 1), min_size=0, max_size=6),
                          st.lists(pool_ref, min_size=0, max_size=4)),
        'ops': st.lists(op_strategy, min_size=3, max_size=25),
    })


def build_pool(stg):
    base = dict(fchans=4, df=2.0, dt=1.5, fch1=1e9)
    pool = []
    for k in range(N_COMPAT - 1):
        # frames 0 and 1 are twins: equal in every parameter, start time, name and data, but distinct objects
        kk = 0 if k == 1 else k
        pool.append(stg.Frame(tchans=1 + kk % 3, ascending=False, t_start=1000.0 + 17.0 * kk, **base))
    # opposite orientation, same band: fmin must be *equal* for the guard
    desc = pool[0]
    pool.append(stg.Frame(fchans=4, tchans=2, df=2.0, dt=1.5, fch1=float(desc.fmin), ascending=True,
                          t_start=5000.0))
    pool.append(stg.Frame(fchans=4, tchans=2, df=3.0, dt=1.5, fch1=1e9, t_start=0.0))
    pool.append(stg.Frame(fchans=4, tchans=2, df=2.0, dt=2.5, fch1=1e9, t_start=0.0))
    pool.append(stg.Frame(fchans=5, tchans=2, df=2.0, dt=1.5, fch1=1e9, t_start=0.0))
    pool.append(stg.Frame(fchans=4, tchans=2, df=2.0, dt=1.5, fch1=1e9 + 2.0, t_start=0.0))
    # differences of a single ulp are differences
    pool.append(stg.Frame(fchans=4, tchans=2, df=float(np.nextafter(2.0, 3.0)), dt=1.5, fch1=1e9, t_start=0.0))
    pool.append(stg.Frame(fchans=4, tchans=2, df=2.0, dt=float(np.nextafter(1.5, 2.0)), fch1=1e9, t_start=0.0))
    pool.append(stg.Frame(fchans=4, tchans=2, df=2.0, dt=1.5, fch1=float(np.nextafter(float(desc.fmin), 2e9)), ascending=True, t_start=0.0))
    # non-frames, two of them frame-like: a cadence (has df, dt, fchans, fmin ...) and a look-alike object
    import types
    inner = stg.Frame(tchans=2, ascending=False, t_start=9000.0, **base)
    look = types.SimpleNamespace(df=inner.df, dt=inner.dt, fchans=inner.fchans, fmin=inner.fmin, fmax=inner.fmax, fmid=inner.fmid,
                                 fch1=inner.fch1, ascending=False, tchans=2, t_start=9000.0, t_stop=9003.0, metadata={}, data=inner.data,
                                 add_metadata=lambda d: None)
    pool.extend([None, 3, 'frame', np.zeros((2, 4)), stg.Cadence([inner]), look])
    assert len(pool) == POOL
    return pool


def is_frame(stg, v):
    return isinstance(v, stg.Frame)


def compatible(model, v):
    if not model:
        return True
    r = model[0]
    return (v.df == r.df and v.dt == r.dt and v.fchans == r.fchans and v.fmin == r.fmin)


def run_case(case, ctx):
    stg = core.import_setigen()
    obs = core.Obs()
    pool = build_pool(stg)
    ordered = bool(case['ordered'])
    obs.cls('ordered' if ordered else 'plain')
    st_ = {'order': case['order'] if ordered else None}
    labels = {}        # id(frame) -> label (ordered only)
    model = []
    mutating = 0
    interesting = False

    def snapshot_labels():
        return {id(f): f.metadata.get('order_label') for f in pool if is_frame(stg, f)}

    def add_ok(v):
        """None if the model accepts adding v now, else the reason it must be rejected."""
        if not is_frame(stg, v):
            return 'nonframe'
        if not compatible(model, v):
            return 'incompatible'
        return None

    def label_for(v, pos):
        """(ok, label) for placing v at effective position pos in an ordered cadence."""
        if not ordered or id(v) in labels:
            return True, None
        if 0 <= pos < len(st_['order']):
            return True, st_['order'][pos]
        return False, None

    def model_insert(pos, v):
        """Apply to model; returns 'ok' or rejection reason."""
        why = add_ok(v)
        if why:
            return why
        ok, lab = label_for(v, pos)
        if not ok:
            return 'nolabel'
        if lab is not None:
            labels[id(v)] = lab
        model.insert(pos, v)
        return 'ok'

    other = {'cad': None, 'model': None, 'order': None}

    def check_other(tag):
        # a cadence constructed from this one is a list of its own
        if other['cad'] is not None and [id(f) for f in other['cad'].frames] != [id(f) for f in other['model']]:
            obs.fail(f'constructed_from_cadence_shares_state:{tag}', f'len {len(other["cad"].frames)} vs {len(other["model"])}')
            other['cad'] = None

    def check_state(tag, cad):
        check_other(tag)
        got = [id(f) for f in cad.frames]
        if got != [id(f) for f in model] or len(cad) != len(model):
            obs.fail(f'identity_order:{tag}', f'len {len(cad)} vs model {len(model)}')
            return False
        if [id(f) for f in cad] != got:
            obs.fail(f'iteration:{tag}', '')
        if ordered:
            now = snapshot_labels()
            for f in pool:
                if is_frame(stg, f):
                    want = labels.get(id(f))
                    if now[id(f)] != want:
                        where = 'member' if any(f is m for m in model) else 'non-member'
                        obs.fail(f'label:{tag}:{where}', f'label {now[id(f)]!r} expected {want!r}')
                        return False
        # aggregates
        if model:
            f0, fl = model[0], model[-1]
            exp = dict(tchans=sum(f.tchans for f in model), obs_range=fl.t_stop - f0.t_start,
                       t_start=f0.t_start, fch1=f0.fch1, df=f0.df, dt=f0.dt, fchans=f0.fchans,
                       fmin=f0.fmin, fmax=f0.fmax, fmid=f0.fmid, ascending=f0.ascending)
            for k, v in exp.items():
                ok, g = core.call(obs, f'aggregate_{k}', getattr, cad, k)
                if ok and g != v:
                    obs.fail(f'aggregate:{k}', f'{g} vs {v}')
            ok, sl = core.call(obs, 'slew_times', getattr, cad, 'slew_times')
            want = [model[i].t_start - model[i - 1].t_stop for i in range(1, len(model))]
            if ok and list(np.asarray(sl, dtype=float)) != want:
                obs.fail('aggregate:slew_times', f'{list(sl)} vs {want}')
        else:
            for k in ('tchans', 'obs_range', 't_start', 'fch1', 'df', 'dt', 'fchans', 'fmin'):
                ok, g = core.call(obs, f'aggregate_{k}', getattr, cad, k)
                if ok and g is not None:
                    obs.fail(f'aggregate_empty:{k}', g)
        return True

    def attempt(tag, fn, expect_ok):
        """Run fn on the implementation. expect_ok False: it must raise. Returns (raised, value)."""
        try:
            val = fn()
        except core.HarnessError:
            raise
        except BaseException as exc:
            who, where = core.classify_exception(exc)
            if who != 'setigen' and not isinstance(exc, (IndexError, TypeError, AttributeError, ValueError)):
                raise core.HarnessError(f'{tag}: {exc!r}')
            if expect_ok:
                obs.fail(f'unexpected_raise:{tag}', f'{where}: {exc!r}'[:300])
            return True, exc
        if not expect_ok:
            obs.fail(f'no_raise:{tag}', '')
        return False, val

    # ---- construction -------------------------------------------------------------------
    init = [pool[i] for i in case['init']]
    sim_ok = True
    for pos, v in enumerate(init):
        # constructor = extend = successive appends
        if model_insert(len(model), v) != 'ok':
            sim_ok = False
            break
    if ordered:
        if case.get('overwrite') is not None:
            obs.cls('constructed_with_t_overwrite')
            raised, cad = attempt('construct', lambda: stg.OrderedCadence(frame_list=init, order=case['order'], t_slew=case['overwrite'], t_overwrite=True), sim_ok)
        else:
            raised, cad = attempt('construct', lambda: stg.OrderedCadence(frame_list=init, order=case['order']), sim_ok)
    else:
        if case.get('overwrite') is not None:
            obs.cls('constructed_with_t_overwrite')
            raised, cad = attempt('construct', lambda: stg.Cadence(frame_list=init, t_slew=case['overwrite'], t_overwrite=True), sim_ok)
        else:
            raised, cad = attempt('construct', lambda: stg.Cadence(frame_list=init), sim_ok)
    if raised or not sim_ok:
        if ordered and sim_ok is False and not raised:
            pass
        return obs   # a rejected construction leaves no cadence to continue with
    if not check_state('construct', cad):
        return obs

    def norm_insert_pos(i):
        n = len(model)
        if i < 0:
            i = max(0, n + i)
        return min(i, n)

    for k, op in enumerate(case['ops']):
        name = op['op']
        obs.cls('op=' + name)
        tag = name
        if name in ('append', 'insert'):
            v = pool[op['v']]
            raw = len(model) if name == 'append' else op['i']
            pos = norm_insert_pos(raw)
            if name == 'insert':
                if 0 < pos < len(model):
                    obs.cls('mid_insert')
                    interesting = True
                if raw > len(model) or raw < -len(model):
                    obs.cls('insert_out_of_range')
            res = model_insert(pos, v)
            if res != 'ok':
                obs.cls('rejected_' + res)
                interesting = True
            mutating += 1
            if name == 'append':
                attempt(f'append[{res}]', lambda: cad.append(v), res == 'ok')
            else:
                attempt(f'insert[{res}]', lambda: cad.insert(op['i'], v), res == 'ok')
        elif name in ('extend', 'iadd'):
            vs = [pool[i] for i in op['vs']]
            res = 'ok'
            for v in vs:
                res = model_insert(len(model), v)
                if res != 'ok':
                    obs.cls('rejected_' + res)
                    interesting = True
                    break
            mutating += 1
            if name == 'extend':
                attempt(f'extend[{res}]', lambda: cad.extend(vs), res == 'ok')
            else:
                def iadd():
                    nonlocal cad
                    c0 = cad
                    c0 += vs
                    if c0 is not cad:
                        obs.fail('iadd_identity', '')
                raised, _ = attempt(f'iadd[{res}]', iadd, res == 'ok')
        elif name == 'setitem':
            v = pool[op['v']]
            i = op['i']
            n = len(model)
            why = add_ok(v)
            mutating += 1
            if why:
                obs.cls('rejected_' + why)
                interesting = True
                attempt(f'setitem[{why}]', lambda: cad.__setitem__(i, v), False)
            elif not (-n <= i < n):
                attempt('setitem[index]', lambda: cad.__setitem__(i, v), False)
            else:
                pos = i % n
                # replacing the only reference frame by a compatible one is fine
                ok, lab = label_for(v, pos)
                if not ok:
                    attempt('setitem[nolabel]', lambda: cad.__setitem__(i, v), False)
                else:
                    if lab is not None:
                        labels[id(v)] = lab
                    model[pos] = v
                    attempt('setitem[ok]', lambda: cad.__setitem__(i, v), True)
        elif name == 'delitem':
            i = op['i']
            n = len(model)
            mutating += 1
            if -n <= i < n:
                del model[i]
                attempt('delitem[ok]', lambda: cad.__delitem__(i), True)
            else:
                attempt('delitem[index]', lambda: cad.__delitem__(i), False)
        elif name == 'delslice':
            s = slice(op['a'], op['b'], op['c'])
            del model[s]
            mutating += 1
            attempt('delslice', lambda: cad.__delitem__(s), True)
        elif name == 'pop':
            i = op['i']
            n = len(model)
            mutating += 1
            if n == 0 or (i is not None and not (-n <= i < n)):
                attempt('pop[index]', (lambda: cad.pop()) if i is None else (lambda: cad.pop(i)), False)
            else:
                want = model.pop() if i is None else model.pop(i)
                raised, got = attempt('pop[ok]', (lambda: cad.pop()) if i is None else (lambda: cad.pop(i)), True)
                if not raised and got is not want:
                    obs.fail('pop_value', '')
        elif name == 'getitem':
            i = op['i']
            n = len(model)
            if -n <= i < n:
                raised, got = attempt('getitem[ok]', lambda: cad[i], True)
                if not raised and got is not model[i]:
                    obs.fail('getitem_value', '')
            else:
                attempt('getitem[index]', lambda: cad[i], False)
        elif name == 'getitem_slice':
            s = slice(op['a'], op['b'], op['c'])
            want = model[s]
            raised, got = attempt('getitem_slice', lambda: cad[s], True)
            if not raised:
                if type(got) is not type(cad):
                    obs.fail('selection_type:slice', type(got).__name__)
                elif [id(f) for f in got] != [id(f) for f in want]:
                    obs.fail('selection:slice', f'{len(got)} vs {len(want)}')
        elif name == 'getitem_list':
            n = len(model)
            ii = op['ii']
            if n == 0:
                continue   # numpy cannot type an empty frame array; nothing to select from
            sel = {'list': list(ii), 'tuple': tuple(ii)}.get(op['kind'], np.array(ii, dtype=int))
            if op['kind'] == 'tuple':
                obs.cls('selector_tuple')
            if all(-n <= i < n for i in ii):
                want = [model[i] for i in ii]
                raised, got = attempt(f'getitem_{op["kind"]}', lambda: cad[sel], True)
                if not raised:
                    if type(got) is not type(cad):
                        obs.fail('selection_type:list', type(got).__name__)
                    elif [id(f) for f in got] != [id(f) for f in want]:
                        obs.fail('selection:list', f'{len(got)} vs {len(want)}')
            else:
                attempt(f'getitem_{op["kind"]}[index]', lambda: cad[sel], False)
        elif name == 'by_label':
            if not ordered:
                continue
            want = [f for f in model if labels.get(id(f)) == op['label']]
            raised, got = attempt('by_label', lambda: cad.by_label(op['label']), True)
            if not raised:
                if [id(f) for f in got] != [id(f) for f in want]:
                    obs.fail('by_label', f'{len(got)} vs {len(want)}')
                if want:
                    obs.cls('by_label_nonempty')
        elif name == 'clone':
            # build a second cadence FROM the cadence (not from a list); it must be independent
            obs.cls('op=clone')
            if ordered:
                raised, oc = attempt('clone', lambda: stg.OrderedCadence(frame_list=cad, order=st_['order']), True)
            else:
                raised, oc = attempt('clone', lambda: stg.Cadence(frame_list=cad), True)
                # an ORDERED cadence built from this plain one labels its (so far unlabelled) members like one built from the list
                order2 = ('ABACAD' * (len(model) // 6 + 1))[:max(1, len(model))]
                had = {id(f): f.metadata.get('order_label') for f in model}      # a label a frame already carries is kept
                r2, oc2 = attempt('ordered_from_plain', lambda: stg.OrderedCadence(frame_list=cad, order=order2), True)
                if not r2:
                    obs.cls('ordered_from_plain')
                    if [id(f) for f in oc2.frames] != [id(f) for f in model]:
                        obs.fail('ordered_from_plain:members', '')
                    final = {}
                    for p_, f in enumerate(model):
                        final.setdefault(id(f), had[id(f)] if had[id(f)] is not None else order2[p_])
                    got_l = [f.metadata.get('order_label') for f in oc2.frames]
                    if got_l != [final[id(f)] for f in model]:
                        obs.fail('ordered_from_plain:labels', f'{got_l} vs {[final[id(f)] for f in model]}')
                    for L in 'ABCD':
                        rl, sel = attempt('ordered_from_plain:by_label', lambda: oc2.by_label(L), True)
                        if not rl and [id(f) for f in sel] != [id(f) for f in model if final[id(f)] == L]:
                            obs.fail('ordered_from_plain:by_label', L)
            if not raised:
                other['cad'], other['model'], other['order'] = oc, list(model), st_['order']
                if [id(f) for f in oc.frames] != [id(f) for f in model]:
                    obs.fail('clone_members', '')
        elif name == 'swap':
            if other['cad'] is not None:
                cad, other['cad'] = other['cad'], cad
                model, other['model'] = other['model'], model
                st_['order'], other['order'] = other['order'], st_['order']
                obs.cls('op=swap')
        elif name == 'set_order':
            if not ordered or len(op['order']) < len(model):
                continue
            st_['order'] = op['order']
            for p, f in enumerate(model):
                labels[id(f)] = op['order'][p]
            mutating += 1
            attempt('set_order', lambda: cad.set_order(op['order']), True)
        if sum(1 for f in model if f is pool[0]) and sum(1 for f in model if f is pool[1]):
            obs.cls('twin_frames_both_members')
        if not check_state(tag, cad):
            break
    obs.nontrivial = mutating >= 3 and interesting
    return obs


# --------------------------------------------------------------------------------------------------
# byte-level decoder for the coverage-guided stage (vp/fuzz.py): the same case domain as strategy(),
# built from a libFuzzer byte string through atheris' FuzzedDataProvider
# --------------------------------------------------------------------------------------------------
def decode_bytes(fdp):
    def pool_ref():
        return fdp.ConsumeIntInRange(0, N_COMPAT - 1) if fdp.ConsumeBool() else fdp.ConsumeIntInRange(0, POOL - 1)

    def index():
        return fdp.ConsumeIntInRange(-9, 9)

    def opt():
        return None if fdp.ConsumeBool() else fdp.ConsumeIntInRange(-9, 9)

    def text(alphabet, lo, hi):
        return ''.join(alphabet[fdp.ConsumeIntInRange(0, len(alphabet) - 1)] for _ in range(fdp.ConsumeIntInRange(lo, hi)))
    kinds = ['append', 'insert', 'extend', 'iadd', 'setitem', 'delitem', 'delslice', 'pop', 'getitem', 'getitem_slice',
             'getitem_list', 'by_label', 'clone', 'swap', 'set_order']
    ops = []
    for _ in range(fdp.ConsumeIntInRange(3, 25)):
        k = kinds[fdp.ConsumeIntInRange(0, len(kinds) - 1)]
        if k == 'append':
            ops.append({'op': k, 'v': pool_ref()})
        elif k in ('insert', 'setitem'):
            ops.append({'op': k, 'i': index(), 'v': pool_ref()})
        elif k in ('extend', 'iadd'):
            ops.append({'op': k, 'vs': [pool_ref() for _ in range(fdp.ConsumeIntInRange(0, 4))]})
        elif k in ('delitem', 'getitem'):
            ops.append({'op': k, 'i': index()})
        elif k in ('delslice', 'getitem_slice'):
            ops.append({'op': k, 'a': opt(), 'b': opt(), 'c': [None, 1, 2, -1][fdp.ConsumeIntInRange(0, 3)]})
        elif k == 'pop':
            ops.append({'op': k, 'i': None if fdp.ConsumeBool() else index()})
        elif k == 'getitem_list':
            ops.append({'op': k, 'kind': ['list', 'ndarray', 'tuple'][fdp.ConsumeIntInRange(0, 2)],
                        'ii': [index() for _ in range(fdp.ConsumeIntInRange(1, 5))]})
        elif k == 'by_label':
            ops.append({'op': k, 'label': 'ABCDXab'[fdp.ConsumeIntInRange(0, 6)]})
        elif k in ('clone', 'swap'):
            ops.append({'op': k})
        else:
            ops.append({'op': k, 'order': text('ABCDab', 1, 12)})
    return {'ordered': fdp.ConsumeBool(),
            'order': 'ABACAD' if fdp.ConsumeBool() else text('ABCDab', 0, 9),
            'init': [pool_ref() for _ in range(fdp.ConsumeIntInRange(0, 6))],
            'overwrite': [None, None, 0.0, 30.0, 7.25][fdp.ConsumeIntInRange(0, 4)],
            'ops': ops}
