"""C02 - recorded RAW samples equal the reference pipeline, whatever the partitioning."""
import math
import os

import numpy as np
from hypothesis import strategies as st

from vp import core, gen, volt, ref_guppi
from vp.props.c08 import reference_fast

PROP_ID = 'C02'
LEVEL = 'exploration'
BUDGET = {'quick': 2400, 'thorough': 40000}
RULE = ('Hypothesis draws a backend configuration (branches 8..64, taps 2..8, start_chan/num_chans, 1-2 pols, 8/4 bit, '
        'single antenna or 1-3 antenna array with delays, samples_per_block = taps*m with m 1..12, 1..7 blocks, '
        'blocks_per_file 1..8, num_subblocks 1..m+3 incl. non-divisors and over-large values, five sample rates, '
        'both orientations, digitiser on/off, seeded noise per stream (+ shared background) and 0..2 tones/chirps); '
        'quantiser statistics come from a prefix common to all partitions. Oracle (a): a same-seed twin source read '
        'in ONE request is pushed through an independent pipeline (digitiser formula, sliding-window FIR + explicit '
        'DFT matrix, channel selection, requantiser formula, byte packing) and compared sample for sample with the '
        'blocks parsed by an independent GUPPI reader (values within 1e-6 of a rounding tie may differ by 1, counted). '
        'Oracle (b): the same configuration recorded under up to 8 (num_subblocks, blocks_per_file) partitions must '
        'give identical concatenated payloads (same tie rule). Non-trivial: >=2 blocks or >=2 sub-blocks, output not constant, '
        'and a non-dividing partition in the set.')
ASSUMPTIONS = ['stats_calc_period=-1, digitiser statistics from <= 2*taps*branches samples, requantiser from <= taps spectra',
               'twin source + single request is the stream reference (chunk invariance of sources is C10/C15)',
               'reference DFT in complex128; tie window 1e-6']
REQUIRED_CLASSES = ['bits=8', 'bits=4', 'pols=1', 'pols=2', 'single', 'array', 'digitize', 'nodigitize', 'asc', 'desc',
                    'nsb_nondivisor', 'nsb_exceeds', 'multi_file', 'multi_block', 'long_block', 'history=after_success', 'history=after_abort']


def _with_noise(c):
    # a noiseless stream with a tone exactly on a coarse-channel centre channelises to a constant: its
    # estimated deviation is pure rounding noise (1e-16) which the quantiser would amplify - numerically
    # degenerate, not a framing or ordering question; every stream carries seeded noise here
    if c['noise_std'] == 0:
        c['noise_std'] = 0.3
    return c


@st.composite
def strategy_(draw, tier):
    c = draw(volt.volt_config(max_blocks=7 if tier == 'thorough' else 5, max_m=12 if tier == 'thorough' else 8).map(_with_noise))
    if draw(st.integers(0, 24)) == 0:
        # a real block holds thousands of spectra: one channelize call beyond 4096 output rows
        c.update(B=8, taps=draw(st.integers(4, 5)), m=draw(st.integers(1050, 1300)), nblocks=draw(st.integers(1, 2)),
                 num_chans=draw(st.integers(1, 2)), start_chan=1, nsb=draw(st.sampled_from([1, 1, 2, 3])), array=False, na=1, delays=None)
        c['long_block'] = True
    c['history'] = draw(st.sampled_from([None, None, 'after_success', 'after_abort']))
    c['abort_call'] = draw(st.integers(2, 6))
    c['period'] = draw(st.sampled_from([-1, -1, 0, 1]))
    return c


def strategy(tier):
    return strategy_(tier)


def quantize_ref(x, lead, tstd, bits):
    """Reference quantiser: statistics from `lead`, returns (ints, pre-round values)."""
    lo, hi = -2 ** (bits - 1), 2 ** (bits - 1) - 1
    mean = float(np.mean(lead))
    std = 0.0 if float(np.max(lead)) == float(np.min(lead)) else float(np.std(lead))
    y = np.zeros_like(x, dtype=float) if std == 0 else (tstd / std) * (x - mean)
    return np.clip(np.rint(y), lo, hi), y


def reference_blocks(c, x_all):
    """x_all: (na, npol, total) twin samples. Returns (expected complex ints (obsnchan, rows, npol), tie mask)."""
    from scipy.signal import firwin
    T, B, nch, s0 = c['taps'], c['B'], c['num_chans'], c['start_chan']
    fw = 2 * math.sqrt(2 * math.log(2))
    h = firwin(T * B, cutoff=1.0 / B, window='hamming', scale=True) * T * B
    rows = c['nblocks'] * c['taps'] * c['m']
    out = np.zeros((c['na'] * nch, rows, c['npol']), dtype=complex)
    tie = np.zeros(out.shape, dtype=bool)
    dig_tie = False
    for a in range(c['na']):
        for p in range(c['npol']):
            x = np.asarray(x_all[a][p], dtype=float)
            if c['digitize']:
                q, y = quantize_ref(x, x[:2 * T * B], c['dig_fwhm'] / fw, 8)
                if np.any(np.abs(y - np.floor(y) - 0.5) < 1e-6):
                    dig_tie = True
                x = q
            X = reference_fast(x, h, T, B)[:, s0:s0 + nch]
            assert X.shape[0] == rows, (X.shape, rows)
            for comp in (0, 1):
                v = X.real if comp == 0 else X.imag
                q, y = quantize_ref(v, v[:T], c['req_fwhm'] / fw, c['nbits'])
                t = np.abs(y - np.floor(y) - 0.5) < 1e-6
                if comp == 0:
                    out[a * nch:(a + 1) * nch, :, p] += q.T
                else:
                    out[a * nch:(a + 1) * nch, :, p] += 1j * q.T
                tie[a * nch:(a + 1) * nch, :, p] |= t.T
    return out, tie, dig_tie


def partitions(c):
    m = c['m']
    if c.get('long_block'):
        return [(c['nsb'], c['bpf']), (7, 1), (1, 2)][:3] if c['nsb'] != 7 else [(7, 1), (1, 2)]
    if m <= 4:
        nsbs = list(range(1, m + 4))
    else:
        nsbs = sorted({1, 2, 3, m - 1, m, m + 3, c['nsb']})
    bpfs = sorted({1, c['bpf'], c['nblocks'] + 1})
    out = [(c['nsb'], c['bpf'])]
    for k, n in enumerate(nsbs):
        pair = (n, bpfs[k % len(bpfs)])
        if pair not in out:
            out.append(pair)
    return out[:8]


def run_case(case, ctx):
    core.import_setigen()
    obs = core.Obs()
    c = case
    sz = volt.sizes(c)
    m = c['m']
    obs.cls(f'bits={c["nbits"]}', f'pols={c["npol"]}', 'array' if c['array'] else 'single',
            'digitize' if c['digitize'] else 'nodigitize', 'asc' if c['ascending'] else 'desc')
    if c['nblocks'] > 1:
        obs.cls('multi_block')
    parts = partitions(c)
    payloads = []
    first_blocks = None
    for k, (nsb, bpf) in enumerate(parts):
        if nsb > m:
            obs.cls('nsb_exceeds')
        elif m % nsb:
            obs.cls('nsb_nondivisor')
        if c['nblocks'] > bpf:
            obs.cls('multi_file')
        stem = ctx.path(f'rec{k}')
        ok, _ = core.call(obs, 'record', lambda: volt.record(volt.build_backend(c, volt.build_source(c), nsb, bpf), stem, c))
        if not ok:
            return obs
        try:
            data, blocks = volt.read_payloads(stem)
        except ref_guppi.RawFormatError as e:
            obs.fail('unparseable_output', str(e)[:300])
            return obs
        if len(blocks) != c['nblocks'] or any(len(b['data']) != sz['block_size'] for b in blocks):
            obs.fail('block_count_or_size', f'{len(blocks)} blocks vs {c["nblocks"]}; nsb={nsb} bpf={bpf}')
            return obs
        payloads.append(data)
        if k == 0:
            first_blocks = blocks
        for fn in volt.raw_files(stem):
            os.remove(fn)
    # (a) reference pipeline from a twin source read in one request
    twin = volt.build_source(c)
    ok, x_all = core.call(obs, 'twin_get', twin.get_samples, sz['total_samples'])
    if not ok:
        return obs
    exp, tie, dig_tie = reference_blocks(c, np.asarray(x_all))
    if dig_tie:
        # a digitiser sample within 1e-6 of a rounding tie: time axes of differently chunked requests differ by ulps,
        # which moves tone samples by ~1e-9 and may flip that sample - not a partition or ordering question
        obs.count('excluded_digitiser_tie_cases')
        return obs
    obsnchan = c['na'] * c['num_chans']

    def dec(data):
        return np.concatenate([ref_guppi.decode(data[k * sz['block_size']:(k + 1) * sz['block_size']], obsnchan, c['npol'], c['nbits'])
                               for k in range(c['nblocks'])], axis=1)
    got = dec(payloads[0])
    if got.shape != exp.shape:
        obs.fail('decoded_shape', f'{got.shape} vs {exp.shape}')
        return obs
    # (b) partition invariance: identical payloads (a sample whose pre-round value is within 1e-6 of a tie may differ by 1)
    for k in range(1, len(payloads)):
        if payloads[k] != payloads[0]:
            dk = dec(payloads[k]) - got
            badk = (dk != 0) & ~(tie & (np.abs(dk.real) <= 1) & (np.abs(dk.imag) <= 1))
            if np.any(badk):
                ch, t, p = map(int, np.argwhere(badk)[0])
                blk, row = divmod(t, sz['spb'])
                obs.fail('partition_dependence', f'(nsb,bpf)={parts[k]} vs {parts[0]}: {int(badk.sum())} samples differ, first: channel {ch} '
                         f'block {blk} spectrum {row} pol {p}; m={m} taps={c["taps"]} bits={c["nbits"]} pols={c["npol"]}')
                break
            obs.count('partition_tie_flips', int(np.sum(dk != 0)))
    d = got - exp
    bad = (d != 0) & ~(tie & (np.abs(d.real) <= 1) & (np.abs(d.imag) <= 1))
    obs.count('tie_samples', int(np.sum(tie)))
    obs.count('samples', int(exp.size))
    if np.any(bad):
        ch, t, p = map(int, np.argwhere(bad)[0])
        blk, row = divmod(t, sz['spb'])
        obs.fail(f'reference_mismatch:bits{c["nbits"]}:{"dig" if c["digitize"] else "nodig"}',
                 f'{int(bad.sum())} of {bad.size} samples differ; first: channel {ch} block {blk} spectrum {row} pol {p} '
                 f'got {got[ch, t, p]} expected {exp[ch, t, p]}; parts={parts[0]} m={m} taps={c["taps"]} B={c["B"]} array={c["array"]}')
    if c.get('long_block'):
        obs.cls('long_block')
    # ---- the same backend used again: what a recording writes depends on the antenna state and the arguments only ----
    hist = c.get('history')
    if hist and not obs.violations and not c.get('long_block'):
        obs.cls('history=' + hist)
        rerecord_facet(obs, c, ctx, hist)
    nonconst = len(np.unique(got)) > 1
    nsb_eff = min(c['nsb'], m)
    obs.nontrivial = (c['nblocks'] >= 2 or nsb_eff >= 2) and nonconst and any((m % n) or n > m for n, _ in parts)
    return obs


class _Abort(Exception):
    pass


def rerecord_facet(obs, c, ctx, hist):
    """Setup A: one backend performs a (successful or aborted) recording and then records again. Setup B: an identical
    antenna goes through the same requests, but the final recording is made by a FRESH backend of the same
    configuration. The final files must be identical (quantiser statistics, PFB tails and counters are per recording)."""
    period = c.get('period', -1)
    outs = []
    for setup in ('A', 'B'):
        src = volt.build_source(c)
        be1 = volt.build_backend(c, src, period=period)
        real = src.get_samples
        if hist == 'after_abort':
            calls = {'n': 0}

            def failing(n, real=real, calls=calls):
                calls['n'] += 1
                if calls['n'] == c['abort_call']:
                    raise _Abort()
                return real(n)
            src.get_samples = failing
        try:
            volt.record(be1, ctx.path(f'h1{setup}'), c)
            if hist == 'after_abort' and False:
                pass
        except _Abort:
            pass
        except BaseException as exc:
            who, where = core.classify_exception(exc)
            if who == 'setigen':
                obs.fail('raises:first_recording:' + where, repr(exc)[:200])
                return
            raise
        src.get_samples = real
        be2 = be1 if setup == 'A' else volt.build_backend(c, src, period=period)
        stem = ctx.path(f'h2{setup}')
        ok, _ = core.call(obs, 'record[second]', volt.record, be2, stem, c)
        if not ok:
            return
        try:
            data, blocks = volt.read_payloads(stem)
        except ref_guppi.RawFormatError as e:
            obs.fail('unparseable_second_recording', str(e)[:200])
            return
        outs.append(data)
    if outs[0] != outs[1]:
        a = np.frombuffer(outs[0], dtype=np.int8)
        b = np.frombuffer(outs[1], dtype=np.int8)
        n = int(np.sum(a != b)) if a.shape == b.shape else -1
        obs.fail(f'second_recording_depends_on_backend_history:{hist}:period{period}',
                 f'{n} of {a.size} bytes differ between a re-used backend and a fresh backend on the same antenna state')
