"""Property-based verification machinery for bbrzycki/setigen (see /verif/DESIGN.md)."""
