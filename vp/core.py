"""
Common search loop: sharded Hypothesis generation, violation bucketing, shrinking,
known-finding handling, replay, evidence writing, exit codes.

A property module (vp/props/cNN.py) provides

    PROP_ID            "C05"
    LEVEL              "exploration" | "fault_enumeration"
    RULE               text: how cases are generated and what makes one non-trivial
    ASSUMPTIONS        list of strings
    BUDGET             {"quick": n_cases, "thorough": n_cases}
    strategy(tier)     -> Hypothesis strategy producing JSON-serialisable dict cases
    run_case(case, ctx)-> Obs
    REQUIRED_CLASSES   (optional) class labels that must have a non-zero count
    enumerate_cases(tier) (optional) -> iterable of deterministic cases run in addition
    REGIONS            (optional) {name: predicate(case)} used by known_findings.json

Exit codes: 0 held on everything explored; 1 violation (with VIOLATION line);
2 harness / generator error (never a VIOLATION line).
"""
import collections
import contextlib
import hashlib
import importlib
import json
import os
import shutil
import sys
import tempfile
import time
import traceback

VERIF = os.path.dirname(os.path.dirname(os.path.abspath(__file__)))
REPO = os.path.abspath(os.environ.get('VERIF_REPO', '/repo'))
KNOWN_FILE = os.path.join(VERIF, 'known_findings.json')


class HarnessError(Exception):
    """An error of the checking machinery itself (never reported as a violation)."""


# --------------------------------------------------------------------------------------
# importing the code under test from the working tree
# --------------------------------------------------------------------------------------
def import_setigen():
    if REPO not in sys.path:
        sys.path.insert(0, REPO)
    os.environ.setdefault('TQDM_DISABLE', '1')
    os.environ.setdefault('MPLBACKEND', 'Agg')
    import warnings
    warnings.filterwarnings('ignore')
    import logging
    logging.disable(logging.CRITICAL)
    import setigen
    here = os.path.abspath(setigen.__file__)
    if not here.startswith(REPO + os.sep):
        raise HarnessError(f'setigen imported from {here}, expected under {REPO}')
    return setigen


# --------------------------------------------------------------------------------------
# observation of one case
# --------------------------------------------------------------------------------------
class Obs(object):
    def __init__(self):
        self.violations = []      # (facet, detail)
        self.classes = []         # class labels of this case
        self.nontrivial = False
        self.counters = collections.Counter()

    def fail(self, facet, detail=''):
        self.violations.append((str(facet), str(detail)[:600]))

    def cls(self, *names):
        self.classes.extend(str(n) for n in names)

    def count(self, key, n=1):
        self.counters[key] += n


def _in_dir(path, d):
    # compiled extension frames carry relative pseudo-paths (numpy/random/_common.pyx): not ours
    return os.path.isabs(path) and os.path.abspath(path).startswith(os.path.abspath(d) + os.sep)


def classify_exception(exc):
    """
    Return ('setigen', 'Type@file:func') if the innermost frame that belongs to either the
    harness or the repository is a repository frame, else ('harness', ...).
    """
    tb = traceback.extract_tb(exc.__traceback__)
    last = None
    for fr in tb:
        if _in_dir(fr.filename, REPO):
            last = ('setigen', fr)
        elif _in_dir(fr.filename, VERIF):
            last = ('harness', fr)
    if last is None:
        return 'harness', type(exc).__name__
    who, fr = last
    rel = os.path.relpath(fr.filename, REPO if who == 'setigen' else VERIF)
    return who, f'{type(exc).__name__}@{rel}:{fr.name}'


# A changed library may hand back a value of another shape, type or container than every value seen on the pinned
# tree; the oracle code then trips over it (IndexError on an empty comparison, TypeError on a scalar where an array was
# promised, ...). Such an exception, raised in the oracle modules while they process a result, is reported as a
# violation 'unprocessable_result' with the case as replay file, not as an error of the machinery: on the pinned
# tree it never occurs (soak runs), so it carries exactly the information "the library answered differently".
# Infrastructure failures (HarnessError raised deliberately, OSError, MemoryError, Hypothesis errors) stay exit 2.
_VALUE_ERRORS = (IndexError, TypeError, ValueError, AttributeError, KeyError, ZeroDivisionError, OverflowError, FloatingPointError)
_ORACLE_FILES = ('vp/props/', 'vp/sig.py', 'vp/ref_', 'vp/volt.py', 'vp/gen.py')


def _oracle_tripped(exc, who, where):
    return who == 'harness' and isinstance(exc, _VALUE_ERRORS) and where.split('@', 1)[-1].startswith(_ORACLE_FILES)


def call(obs, facet, fn, *args, **kwargs):
    """
    Call code under test. An exception raised from inside the repository on an in-domain
    input is recorded as violation 'raises:<facet>:<Type>@<frame>'; an exception from the
    harness propagates as HarnessError. Returns (ok, value).
    """
    try:
        return True, fn(*args, **kwargs)
    except HarnessError:
        raise
    except (KeyboardInterrupt, MemoryError):
        raise
    except BaseException as exc:  # SystemExit included: sys.exit() in library code
        who, where = classify_exception(exc)
        if who == 'setigen':
            obs.fail(f'raises:{facet}:{where}', repr(exc)[:300])
            return False, exc
        if _oracle_tripped(exc, who, where):
            obs.fail(f'unprocessable_result:{facet}:{where}', repr(exc)[:300])
            return False, exc
        raise HarnessError(f'{facet}: {where}: {exc!r}\n' + ''.join(
            traceback.format_exception(type(exc), exc, exc.__traceback__))[-3000:])


def expect_raises(obs, facet, exc_types, fn, *args, **kwargs):
    """The contract is 'raises on this input': not raising (or raising another type) fails."""
    try:
        fn(*args, **kwargs)
    except exc_types:
        return True
    except HarnessError:
        raise
    except BaseException as exc:
        who, where = classify_exception(exc)
        if who == 'setigen':
            obs.fail(f'wrong_exception:{facet}', f'{where}: {exc!r}'[:300])
            return False
        raise HarnessError(f'{facet}: {where}: {exc!r}')
    obs.fail(f'no_exception:{facet}', f'expected {exc_types}')
    return False


class Ctx(object):
    def __init__(self, tmpdir, tier):
        self.tmpdir = tmpdir
        self.tier = tier
        self._n = 0

    def path(self, name):
        self._n += 1
        return os.path.join(self.tmpdir, f'{self._n:06d}_{name}')

    def clean(self):
        for n in os.listdir(self.tmpdir):
            p = os.path.join(self.tmpdir, n)
            if os.path.isdir(p):
                shutil.rmtree(p, ignore_errors=True)
            else:
                with contextlib.suppress(OSError):
                    os.remove(p)


def safe_run_case(mod, case, ctx):
    """run_case, but an exception that escapes from a direct (unguarded) call into the library on an in-domain case is a
    violation of the property, not an error of the machinery: classify by the innermost repository / harness frame."""
    try:
        return mod.run_case(case, ctx)
    except HarnessError:
        raise
    except (KeyboardInterrupt, MemoryError):
        raise
    except BaseException as exc:
        who, where = classify_exception(exc)
        obs = Obs()
        if who == 'setigen':
            obs.fail(f'raises:unguarded:{where}', repr(exc)[:300])
        elif _oracle_tripped(exc, who, where):
            obs.fail(f'unprocessable_result:{where}', repr(exc)[:300])
        else:
            raise
        return obs


def canon(case):
    return json.dumps(case, sort_keys=True, separators=(',', ':'), default=_json_default)


def _json_default(o):
    import numpy as np
    if isinstance(o, (np.integer,)):
        return int(o)
    if isinstance(o, (np.floating,)):
        return float(o)
    if isinstance(o, np.ndarray):
        return o.tolist()
    if isinstance(o, (np.bool_,)):
        return bool(o)
    raise TypeError(type(o))


def case_hash(case):
    return hashlib.sha1(canon(case).encode()).hexdigest()[:16]


# --------------------------------------------------------------------------------------
# known findings
# --------------------------------------------------------------------------------------
def load_known(prop_id):
    if not os.path.exists(KNOWN_FILE):
        return []
    with open(KNOWN_FILE) as f:
        doc = json.load(f)
    return [k for k in doc.get('open', []) if k['property'] == prop_id]


def match_known(mod, known, facet, case):
    for k in known:
        if not facet.startswith(k['facet']):
            continue
        region = k.get('region')
        if region is None:
            return k
        pred = getattr(mod, 'REGIONS', {}).get(region)
        if pred is None:
            raise HarnessError(f'known finding {k["id"]} names unknown region {region}')
        if pred(case):
            return k
    return None


# --------------------------------------------------------------------------------------
# shard statistics
# --------------------------------------------------------------------------------------
class Stats(object):
    def __init__(self):
        self.evaluations = 0
        self.nontrivial = set()
        self.classes = collections.Counter()
        self.counters = collections.Counter()
        self.buckets = {}          # facet -> dict(case, detail, n, size)
        self.known_hits = collections.Counter()
        self.samples = {}          # class-key -> case
        self.errors = []

    def record(self, mod, known, case, obs):
        self.evaluations += 1
        if obs.nontrivial:
            self.nontrivial.add(case_hash(case))
        for c in set(obs.classes):
            self.classes[c] += 1
        self.counters.update(obs.counters)
        if obs.nontrivial and len(self.samples) < 12:
            key = '|'.join(sorted(set(obs.classes)))[:200]
            if key not in self.samples:
                self.samples[key] = case
        seen = set()
        for facet, detail in obs.violations:
            if facet in seen:
                continue
            seen.add(facet)
            k = match_known(mod, known, facet, case)
            if k is not None:
                self.known_hits[k['id']] += 1
                continue
            size = len(canon(case))
            b = self.buckets.get(facet)
            if b is None:
                self.buckets[facet] = dict(case=case, detail=detail, n=1, size=size)
            else:
                b['n'] += 1
                if size < b['size']:
                    b.update(case=case, detail=detail, size=size)

    def dump(self):
        return dict(evaluations=self.evaluations, nontrivial=sorted(self.nontrivial),
                    classes=dict(self.classes), counters=dict(self.counters),
                    buckets=self.buckets, known_hits=dict(self.known_hits),
                    samples=self.samples, errors=self.errors)


def merge(dumps):
    tot = Stats()
    for d in dumps:
        tot.evaluations += d['evaluations']
        tot.nontrivial.update(d['nontrivial'])
        tot.classes.update(d['classes'])
        tot.counters.update(d['counters'])
        tot.known_hits.update(d['known_hits'])
        tot.errors.extend(d['errors'])
        for k, v in d['samples'].items():
            if len(tot.samples) < 12 and k not in tot.samples:
                tot.samples[k] = v
        for facet, b in d['buckets'].items():
            t = tot.buckets.get(facet)
            if t is None:
                tot.buckets[facet] = dict(b)
            else:
                t['n'] += b['n']
                if b['size'] < t['size']:
                    t.update(case=b['case'], detail=b['detail'], size=b['size'])
    return tot


# --------------------------------------------------------------------------------------
# one shard (runs in a forked worker)
# --------------------------------------------------------------------------------------
def _quiet():
    devnull = os.open(os.devnull, os.O_WRONLY)
    os.dup2(devnull, 1)
    os.dup2(devnull, 2)


def shard_main(args):
    mod_name, tier, seed, shard, nshards, n_examples, shrink_s, quiet = args
    if quiet:
        _quiet()
    import hypothesis
    from hypothesis import given, settings, Phase, HealthCheck
    import numpy as np
    mod = importlib.import_module(mod_name)
    known = load_known(mod.PROP_ID)
    stats = Stats()
    tmpdir = tempfile.mkdtemp(prefix=f'vp-{mod.PROP_ID}-{shard}-')
    ctx = Ctx(tmpdir, tier)
    try:
        init = getattr(mod, 'shard_init', None)
        if init is not None:
            init(tier)          # before any case ran in this process (e.g. C12 forks its pristine zygote here)
        # regression tier: stored cases of fixed findings, run first (by shard 0)
        rdir = os.path.join(VERIF, 'regress', mod.PROP_ID)
        if shard == 0 and os.path.isdir(rdir):
            for fn in sorted(os.listdir(rdir)):
                if fn.endswith('.json'):
                    with open(os.path.join(rdir, fn)) as f:
                        doc = json.load(f)
                    case = doc['case'] if 'case' in doc else doc
                    obs = safe_run_case(mod, case, ctx)
                    stats.record(mod, known, case, obs)
                    stats.counters['regression_cases'] += 1
                    ctx.clean()
        # deterministic enumerated cases, split round-robin over shards
        enum = getattr(mod, 'enumerate_cases', None)
        if enum is not None:
            for i, case in enumerate(enum(tier)):
                if i % nshards != shard:
                    continue
                obs = safe_run_case(mod, case, ctx)
                stats.record(mod, known, case, obs)
                ctx.clean()
        if n_examples > 0:
            strat = mod.strategy(tier)
            hseed = (int(seed) * 1000 + shard) & 0xFFFFFFFF
            common = dict(database=None, deadline=None, derandomize=False,
                          report_multiple_bugs=False,
                          suppress_health_check=[HealthCheck.too_slow,
                                                 HealthCheck.data_too_large,
                                                 HealthCheck.large_base_example])

            @settings(max_examples=n_examples, phases=[Phase.generate], **common)
            @hypothesis.seed(hseed)
            @given(strat)
            def collect(case):
                obs = safe_run_case(mod, case, ctx)
                stats.record(mod, known, case, obs)
                ctx.clean()
            collect()

            # shrink each new bucket found by this shard: same seed, fail on that facet
            for facet in sorted(stats.buckets)[:4]:
                if shrink_s <= 0:
                    break
                best = {'case': None, 'detail': None}
                t0 = time.time()

                @settings(max_examples=n_examples, phases=[Phase.generate, Phase.shrink],
                          **common)
                @hypothesis.seed(hseed)
                @given(strat)
                def shrink(case):
                    if time.time() - t0 > shrink_s:
                        return
                    obs = safe_run_case(mod, case, ctx)
                    ctx.clean()
                    for f, d in obs.violations:
                        if f == facet and match_known(mod, known, f, case) is None:
                            best['case'], best['detail'] = case, d
                            raise AssertionError(f)
                try:
                    shrink()
                except HarnessError:
                    raise
                except BaseException:
                    pass
                if best['case'] is not None:
                    size = len(canon(best['case']))
                    b = stats.buckets[facet]
                    if size <= b['size']:
                        b.update(case=best['case'], detail=best['detail'], size=size,
                                 shrunk=True)
    except BaseException as exc:
        stats.errors.append(''.join(traceback.format_exception(type(exc), exc,
                                                               exc.__traceback__))[-4000:])
    finally:
        shutil.rmtree(tmpdir, ignore_errors=True)
        close = getattr(mod, 'shard_close', None)
        if close is not None:
            try:
                close()
            except Exception:
                pass
    return json.loads(json.dumps(stats.dump(), default=_json_default))


# --------------------------------------------------------------------------------------
# driver
# --------------------------------------------------------------------------------------
def slug(s):
    return ''.join(ch if ch.isalnum() else '_' for ch in s)[:60]


def write_replay(mod, facet, bucket, seed, tier):
    d = os.path.join(VERIF, 'replays', mod.PROP_ID)
    os.makedirs(d, exist_ok=True)
    h = hashlib.sha1((facet + canon(bucket['case'])).encode()).hexdigest()[:8]
    path = os.path.join(d, f'{slug(facet)}-{h}.json')
    with open(path, 'w') as f:
        json.dump(dict(property=mod.PROP_ID, facet=facet, detail=bucket['detail'],
                       occurrences=bucket['n'], shrunk=bool(bucket.get('shrunk')),
                       seed=seed, tier=tier, case=bucket['case']), f, indent=1,
                  default=_json_default)
    return path


def run_single(mod, case, tier='quick'):
    tmpdir = tempfile.mkdtemp(prefix=f'vp-{mod.PROP_ID}-replay-')
    try:
        return safe_run_case(mod, case, Ctx(tmpdir, tier))
    finally:
        shutil.rmtree(tmpdir, ignore_errors=True)


def replay(mod, path):
    with open(path) as f:
        doc = json.load(f)
    case = doc['case'] if 'case' in doc else doc
    obs = run_single(mod, case)
    known = load_known(mod.PROP_ID)
    bad = 0
    for facet, detail in obs.violations:
        k = match_known(mod, known, facet, case)
        if k is not None:
            print(f'KNOWN-FINDING: property={mod.PROP_ID} {k["what"]} [{facet}]')
        else:
            bad += 1
            print(f'violation facet={facet} detail={detail}')
    if bad:
        print(f'VIOLATION property={mod.PROP_ID} replay={path}')
        return 1
    print(f'replay held: {path} (classes={sorted(set(obs.classes))})')
    return 0


def fuzz_stage(mod, seed, nproc):
    """Coverage-guided stage of the thorough tier (vp/fuzz.py): nproc/2 libFuzzer processes, each with its own seed,
    drive run_case through the property's byte decoder. Returns (statistics dumps, note). Failures of the stage itself
    (atheris missing, a process dying) are reported in the note, never as violations and never as harness errors: the
    stage adds to the search, it is not the evidence the claim rests on."""
    import subprocess
    runs = int(getattr(mod, 'FUZZ_RUNS', 6000))
    k = max(1, nproc // 2)
    work = tempfile.mkdtemp(prefix=f'vp-{mod.PROP_ID}-fuzz-')
    procs = []
    try:
        for i in range(k):
            wd = os.path.join(work, f'p{i}')
            os.makedirs(wd)
            out = os.path.join(wd, 'stats.json')
            env = dict(os.environ, PYTHONHASHSEED='0', TQDM_DISABLE='1', MPLBACKEND='Agg')
            p = subprocess.Popen([sys.executable, '-m', 'vp.fuzz', mod.PROP_ID, '--runs', str(runs), '--seed', str(int(seed) * 100 + i + 1),
                                  '--out', out, '--work', wd], cwd=VERIF, env=env, stdout=subprocess.DEVNULL, stderr=subprocess.DEVNULL)
            procs.append((p, out))
        dumps, states = [], collections.Counter()
        for p, out in procs:
            try:
                p.wait(timeout=3600)
            except subprocess.TimeoutExpired:
                p.kill()
                states['timeout'] += 1
            try:
                with open(out) as f:
                    doc = json.load(f)
            except (OSError, ValueError):
                states['no_output'] += 1
                continue
            states[doc.get('status', '?')] += 1
            if doc.get('dump'):
                d = doc['dump']
                d['counters'] = {('fuzz_stage_cases' if kk == 'evaluations' else kk): v for kk, v in d['counters'].items()}
                d['counters']['fuzz_stage_cases'] = d['evaluations']
                dumps.append(d)
        return dumps, f'coverage-guided stage: {k} libFuzzer processes x {runs} executions, status {dict(states)}'
    finally:
        shutil.rmtree(work, ignore_errors=True)


def main(mod_name, tier, seed, nshards=None, budget=None, quiet=True):
    import multiprocessing as mp
    t0 = time.time()
    import_setigen()
    mod = importlib.import_module(mod_name)
    pid = mod.PROP_ID
    known = load_known(pid)
    nshards = nshards or min(16, os.cpu_count() or 1)
    total = budget if budget is not None else mod.BUDGET[tier]
    per = (total + nshards - 1) // nshards if total > 0 else 0
    shrink_s = {'quick': 25, 'thorough': 120}[tier]
    shrink_s = float(os.environ.get('VERIF_SHRINK_S', shrink_s))

    shutil.rmtree(os.path.join(VERIF, 'replays', pid), ignore_errors=True)   # stale files of earlier runs
    args = [(mod_name, tier, seed, s, nshards, per, shrink_s, quiet) for s in range(nshards)]
    if nshards == 1:
        dumps = [shard_main(args[0][:-1] + (False,))]
    else:
        ctx = mp.get_context('fork')
        with ctx.Pool(nshards) as pool:
            dumps = pool.map(shard_main, args, chunksize=1)
    fuzz_note = None
    if tier == 'thorough' and getattr(mod, 'decode_bytes', None) is not None and total > 0 \
            and os.environ.get('VERIF_FUZZ', '1') != '0':
        fdumps, fuzz_note = fuzz_stage(mod, seed, nshards)
        dumps = list(dumps) + fdumps
    tot = merge(dumps)
    n_regress = int(tot.counters.pop('regression_cases', 0))

    rc = 0
    if tot.errors:
        print(f'HARNESS-ERROR property={pid} ({len(tot.errors)} shard(s))')
        print(tot.errors[0])
        rc = 2

    # a class the property names was never generated: a generator bug must not pass as "held"
    # (only meaningful when no violation cut the cases short)
    missing = [c for c in getattr(mod, 'REQUIRED_CLASSES', []) if tot.classes.get(c, 0) == 0]
    if missing and rc == 0 and total > 0 and not tot.buckets:
        print(f'HARNESS-ERROR property={pid} generator never produced classes {missing}')
        rc = 2

    # known findings: re-demonstrate each from its stored case
    known_lines = []
    for k in known:
        rp = os.path.join(VERIF, k['replay'])
        with open(rp) as f:
            doc = json.load(f)
        case = doc['case'] if 'case' in doc else doc
        obs = run_single(mod, case, tier)
        hit = [f for f, _ in obs.violations if match_known(mod, [k], f, case) is not None]
        if hit:
            known_lines.append(f'KNOWN-FINDING: property={pid} {k["what"]} '
                               f'(id={k["id"]}, replay={k["replay"]}, '
                               f'hits_in_search={tot.known_hits.get(k["id"], 0)})')
        else:
            known_lines.append(f'NOTE: listed finding {k["id"]} no longer reproduces from '
                               f'{k["replay"]}')
        for f, d in obs.violations:
            if match_known(mod, known, f, case) is None and f not in tot.buckets:
                tot.buckets[f] = dict(case=case, detail=d, n=1, size=len(canon(case)))
    for line in known_lines:
        print(line)

    violations = 0
    if rc != 2:
        for facet in sorted(tot.buckets):
            b = tot.buckets[facet]
            path = write_replay(mod, facet, b, seed, tier)
            print(f'violation facet={facet} occurrences={b["n"]} detail={b["detail"][:300]}')
            print(f'VIOLATION property={pid} replay={path}')
            violations += 1
            rc = 1

    wall = time.time() - t0
    samples = list(tot.samples.values())[:8]
    if not samples and tot.evaluations:
        samples = []
    evidence = dict(
        property_id=pid, tier=tier, seed=int(seed), level=mod.LEVEL,
        coverage=dict(
            evaluations=tot.evaluations,
            distinct_nontrivial=len(tot.nontrivial),
            rule=mod.RULE,
            samples=samples,
            classes=dict(sorted(tot.classes.items())),
            counters=dict(sorted(tot.counters.items())),
            regression_cases=n_regress,
            known_finding_hits=dict(tot.known_hits),
            shards=nshards,
            exhaustive=bool(getattr(mod, 'EXHAUSTIVE', {}).get(tier, False)),
            **({'coverage_guided_stage': fuzz_note} if fuzz_note else {}),
        ),
        assumptions=list(getattr(mod, 'ASSUMPTIONS', [])),
        wall_s=round(wall, 2),
        violations=violations,
    )
    if rc != 2:
        # runs against a scratch (mutant) tree are not evidence about /repo
        edir = os.path.join(VERIF, 'evidence' if REPO == '/repo' else 'evidence-scratch')
        os.makedirs(edir, exist_ok=True)
        with open(os.path.join(edir, f'{pid}.json'), 'w') as f:
            json.dump(evidence, f, indent=1, default=_json_default)
            f.write('\n')
    print(f'{pid} tier={tier} seed={seed} evaluations={tot.evaluations} '
          f'nontrivial={len(tot.nontrivial)} violations={violations} '
          f'known_hits={sum(tot.known_hits.values())} wall={wall:.1f}s rc={rc}')
    return rc
