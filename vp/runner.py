"""
CLI:  python -m vp.runner <ID> [--tier quick|thorough] [--seed N] [--replay FILE]
                               [--shards N] [--budget N] [--noisy]
Environment: VERIF_SEED, VERIF_TIER (override defaults), VERIF_REPO (tree under test).
"""
import argparse
import importlib
import os
import sys


def main(argv=None):
    ap = argparse.ArgumentParser()
    ap.add_argument('prop')
    ap.add_argument('--tier', default=None)
    ap.add_argument('--seed', type=int, default=None)
    ap.add_argument('--replay', default=None)
    ap.add_argument('--shards', type=int, default=None)
    ap.add_argument('--budget', type=int, default=None)
    ap.add_argument('--noisy', action='store_true')
    a = ap.parse_args(argv)

    # a run is a function of (tree, seed, tier): pin hash randomisation for everything below
    if os.environ.get('PYTHONHASHSEED') != '0':
        env = dict(os.environ, PYTHONHASHSEED='0')
        os.execve(sys.executable, [sys.executable, '-m', 'vp.runner'] + (argv or sys.argv[1:]), env)

    tier = a.tier or os.environ.get('VERIF_TIER') or 'quick'
    if a.tier is None and os.environ.get('VERIF_TIER') in ('quick', 'thorough'):
        tier = os.environ['VERIF_TIER']
    if tier not in ('quick', 'thorough'):
        tier = 'quick'
    seed = a.seed if a.seed is not None else int(os.environ.get('VERIF_SEED', '1') or 1)

    from vp import core
    mod_name = f'vp.props.{a.prop.lower()}'
    try:
        core.import_setigen()
        mod = importlib.import_module(mod_name)
        if a.replay:
            return core.replay(mod, a.replay)
        return core.main(mod_name, tier, seed, nshards=a.shards, budget=a.budget,
                         quiet=not a.noisy)
    except core.HarnessError as e:
        print(f'HARNESS-ERROR property={a.prop} {e}')
        return 2
    except Exception:
        import traceback
        print(f'HARNESS-ERROR property={a.prop}')
        traceback.print_exc()
        return 2


if __name__ == '__main__':
    sys.exit(main())
