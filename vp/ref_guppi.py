"""
Independent GUPPI RAW reader / writer (C02, C04, C07, C14, C20).

A file is a sequence of blocks. A block is a header of 80-byte ASCII cards "KEY     = value",
terminated by a card starting with "END", followed - if and only if the header's DIRECTIO value
is non-zero - by zero bytes up to the next multiple of 512 (none when already aligned), followed
by exactly BLOCSIZE data bytes. Data layout: channel-major, then time, then polarisation, then
(re, im); 8-bit samples are int8 pairs, 4-bit samples are packed re = high nibble, im = low
nibble (two's complement).
"""
import collections

import numpy as np

CARD = 80


class RawFormatError(Exception):
    pass


def parse_value(raw):
    s = raw.strip()
    if len(s) >= 2 and s[0] == "'" and s[-1] == "'":
        return s[1:-1].strip()
    return s.strip("'").strip()


def parse_file(path, strict=True):
    """Returns list of blocks: dict(header=OrderedDict key->str, cards=n, hdr_len, pad, offset, data=bytes)."""
    with open(path, 'rb') as f:
        buf = f.read()
    blocks = []
    pos = 0
    n = len(buf)
    while pos < n:
        start = pos
        hdr = collections.OrderedDict()
        cards = 0
        while True:
            if pos + CARD > n:
                raise RawFormatError(f'{path}: truncated header at byte {pos} (block {len(blocks)})')
            card = buf[pos:pos + CARD]
            pos += CARD
            cards += 1
            try:
                text = card.decode('ascii')
            except UnicodeDecodeError:
                raise RawFormatError(f'{path}: non-ASCII header card at byte {pos - CARD} (block {len(blocks)})')
            if text[:3] == 'END' and text[3:].strip() == '':
                break
            if strict and text[8:10] != '= ':
                raise RawFormatError(f'{path}: malformed card {text!r} at byte {pos - CARD} (block {len(blocks)})')
            key = text[:8].strip()
            hdr[key] = parse_value(text[9:] if text[8] == '=' else text[8:])
            if cards > 4096:
                raise RawFormatError(f'{path}: no END card')
        hdr_len = cards * CARD
        try:
            directio = int(float(hdr.get('DIRECTIO', '0') or 0)) != 0
        except ValueError:
            directio = False
        pad = (-hdr_len) % 512 if directio else 0
        if buf[pos:pos + pad] != b'\x00' * pad:
            raise RawFormatError(f'{path}: header padding of block {len(blocks)} is not {pad} zero bytes')
        pos += pad
        if 'BLOCSIZE' not in hdr:
            raise RawFormatError(f'{path}: block {len(blocks)} has no BLOCSIZE')
        bs = int(hdr['BLOCSIZE'])
        if pos + bs > n:
            raise RawFormatError(f'{path}: block {len(blocks)} data truncated ({n - pos} of {bs} bytes)')
        blocks.append(dict(header=hdr, cards=cards, hdr_len=hdr_len, pad=pad, offset=start, data=buf[pos:pos + bs]))
        pos += bs
    return blocks


def decode(data, obsnchan, npol, nbits):
    """bytes -> complex array (obsnchan, ntime, npol)."""
    raw = np.frombuffer(data, dtype=np.int8).reshape(obsnchan, -1)
    if nbits == 8:
        v = raw.reshape(obsnchan, -1, npol, 2).astype(np.int16)
        return v[..., 0] + 1j * v[..., 1]
    if nbits == 4:
        b = raw.view(np.uint8).reshape(obsnchan, -1, npol).astype(np.int16)
        re = b >> 4
        im = b & 0xF
        re = np.where(re >= 8, re - 16, re)
        im = np.where(im >= 8, im - 16, im)
        return re + 1j * im
    raise ValueError(nbits)


def encode(v, nbits):
    """complex integer array (obsnchan, ntime, npol) -> bytes."""
    re = np.rint(v.real).astype(np.int16)
    im = np.rint(v.imag).astype(np.int16)
    if nbits == 8:
        out = np.stack([re, im], axis=-1).astype(np.int8)
        return out.tobytes()
    if nbits == 4:
        b = ((re & 0xF) << 4) | (im & 0xF)
        return b.astype(np.uint8).tobytes()
    raise ValueError(nbits)


def format_card(key, value):
    if isinstance(value, str):
        body = f"'{value:<8}'"
        line = f'{key:<8}= {body:<20}'
    else:
        line = f'{key:<8}= {value:>20}'
    if len(line) > CARD:
        raise ValueError(f'card too long: {line!r}')
    return f'{line:<80}'.encode('ascii')


def write_file(path, blocks):
    """blocks: list of (header dict with python values, payload bytes). DIRECTIO from the header."""
    with open(path, 'wb') as f:
        for hdr, payload in blocks:
            n = 0
            for k, v in hdr.items():
                f.write(format_card(k, v))
                n += 1
            f.write(f"{'END':<80}".encode())
            n += 1
            if int(hdr.get('DIRECTIO', 0) or 0) != 0:
                f.write(b'\x00' * ((-n * CARD) % 512))
            f.write(payload)
