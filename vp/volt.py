"""Shared voltage-pipeline configuration strategy and builders (C02, C04, C07, C12, C14, C20)."""
import glob
import math
import os

import numpy as np
from hypothesis import strategies as st

from vp import gen

RATES = [1e6, 3e9, 2.048e9, 187.5e6, 3.3e9]


@st.composite
def volt_config(draw, max_blocks=7, max_m=12, arrays=True, branches=(8, 16, 32, 64), tones=(0, 2),
                bits=(8, 4), max_antennas=3):
    B = draw(st.sampled_from(list(branches)))
    taps = draw(st.integers(2, 8))
    nch = draw(st.integers(1, B // 2))
    start = draw(st.integers(0, B // 2 - nch))
    npol = draw(st.integers(1, 2))
    nbits = draw(st.sampled_from(list(bits)))
    if arrays and draw(st.integers(0, 2)) == 0:
        na = draw(st.integers(1, max_antennas))
        delays = draw(st.lists(st.integers(0, 5), min_size=na, max_size=na))
        array = True
    else:
        na, delays, array = 1, None, False
    m = draw(st.integers(1, max_m))
    nblocks = draw(st.integers(1, max_blocks))
    bpf = draw(st.integers(1, 8))
    nsb = draw(st.integers(1, m + 3))
    ntone = draw(st.integers(*tones))
    tone = st.fixed_dictionaries({'chan': st.integers(0, 10 ** 6), 'beta': gen.finite(-0.45, 0.45),
                                  'drift': st.one_of(st.just(0.0), gen.finite(-1, 1)),
                                  'level': gen.finite(0.2, 3.0), 'pol': st.integers(0, 1), 'ant': st.integers(0, 2)})
    return dict(B=B, taps=taps, start_chan=start, num_chans=nch, npol=npol, nbits=nbits, array=array, na=na,
                delays=delays, m=m, nblocks=nblocks, bpf=bpf, nsb=nsb,
                sr=draw(st.sampled_from(RATES)), fch1=draw(st.sampled_from([0.0, 6e9, 1.42e9, 8.4e9])),
                ascending=draw(st.booleans()), digitize=draw(st.booleans()),
                seed=draw(st.integers(0, 2 ** 31 - 1)), noise_std=draw(st.sampled_from([1.0, 1.0, 0.3, 0.0])),
                bg_noise_std=draw(st.sampled_from([0.0, 0.5])),
                tones=[draw(tone) for _ in range(ntone)],
                dig_fwhm=draw(st.sampled_from([32.0, 20.0])), req_fwhm=draw(st.sampled_from([32.0, 6.0, 3.0])),
                t_start=draw(st.sampled_from([0.0, 0.0, 1.5e-3])))


def sizes(c):
    bps = 2 * c['npol'] * c['nbits'] // 8
    spb = c['taps'] * c['m']
    block_size = spb * c['na'] * c['num_chans'] * bps
    return dict(bytes_per_sample=bps, spb=spb, block_size=block_size,
                total_samples=(c['nblocks'] * spb + c['taps']) * c['B'])


def tone_frequency(c, tone):
    """Sky frequency of a tone placed in recorded coarse channel tone['chan'] (mod num_chans) at offset beta."""
    chan = c['start_chan'] + tone['chan'] % c['num_chans']
    chan_bw = c['sr'] / c['B']
    sign = 1.0 if c['ascending'] else -1.0
    return c['fch1'] + sign * (chan + tone['beta']) * chan_bw, chan


def build_source(c, with_tones=True, noise=True):
    """Antenna or MultiAntennaArray with seeded noise and tones as the configuration says."""
    from setigen.voltage import antenna as AN
    if c['array']:
        src = AN.MultiAntennaArray(num_antennas=c['na'], sample_rate=c['sr'], fch1=c['fch1'],
                                   ascending=c['ascending'], num_pols=c['npol'], delays=list(c['delays']),
                                   t_start=c['t_start'], seed=c['seed'])
        ants = src.antennas
        if noise and c['bg_noise_std'] > 0:
            for s in src.bg_streams:
                s.add_noise(v_mean=0.0, v_std=c['bg_noise_std'])
    else:
        src = AN.Antenna(sample_rate=c['sr'], fch1=c['fch1'], ascending=c['ascending'], num_pols=c['npol'],
                         t_start=c['t_start'], seed=c['seed'])
        ants = [src]
    for a in ants:
        for s in a.streams:
            if noise and c['noise_std'] > 0:
                s.add_noise(v_mean=0.0, v_std=c['noise_std'])
    if with_tones:
        chan_bw = c['sr'] / c['B']
        for t in c['tones']:
            f, _ = tone_frequency(c, t)
            a = ants[t['ant'] % len(ants)]
            s = a.streams[t['pol'] % c['npol']]
            # drift in coarse-channel widths per recording, kept small
            dur = max(sizes(c)['total_samples'] / c['sr'], 1e-12)
            s.add_constant_signal(f_start=f, drift_rate=t['drift'] * 0.05 * chan_bw / dur, level=t['level'])
    return src


def build_backend(c, src, nsb=None, bpf=None, stats_common_prefix=True, period=-1):
    """RawVoltageBackend for configuration c. With stats_common_prefix the quantiser statistics are
    taken once, from a prefix common to every first sub-block (the property's precondition)."""
    from setigen.voltage import backend as BE, quantization as Q, polyphase_filterbank as P
    sz = sizes(c)
    n_dig = 2 * c['taps'] * c['B'] if stats_common_prefix else 10000
    n_req = c['taps'] if stats_common_prefix else 10000
    dig = Q.RealQuantizer(target_fwhm=c['dig_fwhm'], num_bits=8, stats_calc_period=period,
                          stats_calc_num_samples=n_dig)
    fb = P.PolyphaseFilterbank(num_taps=c['taps'], num_branches=c['B'])
    req = Q.ComplexQuantizer(target_fwhm=c['req_fwhm'], num_bits=c['nbits'], stats_calc_period=period,
                             stats_calc_num_samples=n_req)
    return BE.RawVoltageBackend(src, digitizer=dig, filterbank=fb, requantizer=req, start_chan=c['start_chan'],
                                num_chans=c['num_chans'], block_size=sz['block_size'],
                                blocks_per_file=bpf if bpf is not None else c['bpf'],
                                num_subblocks=nsb if nsb is not None else c['nsb'])


def record(be, stem, c, header_dict=None, load_template=False, **kw):
    be.record(output_file_stem=stem, num_blocks=c['nblocks'], length_mode='num_blocks',
              header_dict={} if header_dict is None else header_dict, digitize=c['digitize'],
              load_template=load_template, verbose=False, **kw)


def raw_files(stem):
    return sorted(glob.glob(f'{glob.escape(stem)}.????.raw'))


def read_payloads(stem):
    """Concatenated payload bytes and the list of parsed blocks over all files of a stem."""
    from vp import ref_guppi
    blocks = []
    for fn in raw_files(stem):
        blocks.extend(ref_guppi.parse_file(fn))
    return b''.join(b['data'] for b in blocks), blocks


def earlier_use(stem, c, nfiles=1):
    """
    History step shared by the RAW-file checks: the SAME path held a different recording earlier in this process, and
    every reader of the library was used on it. Written by the reference writer (no recording needed), read through
    the library (results deliberately not judged here), then removed. Orientation, centre frequency, sizes, bit width,
    DIRECTIO and block count all differ from whatever configuration c will record next.
    """
    import numpy as np
    from setigen.voltage import raw_utils
    from vp import ref_guppi
    sign = -1.0 if c.get('ascending', True) else 1.0
    nbits = 4 if c.get('nbits', 8) == 8 else 8
    nchan, npol_h, ntime = 3, 4, 8
    payload = bytes((np.arange(nchan * ntime * 2 * 2 * nbits // 8) % 251).astype(np.uint8))
    hdr = dict(BACKEND='GUPPI', TELESCOP='DECOY', OBSFREQ=1234.5, OBSBW=sign * 1.5, CHAN_BW=sign * 0.5, OBSNCHAN=nchan,
               NPOL=npol_h, NBITS=nbits, TBIN=2e-6, BLOCSIZE=len(payload), SCANLEN=4.8e-5, PKTIDX=0,
               DIRECTIO=0 if c.get('directio', 1) else 1)
    for i in range(nfiles):
        ref_guppi.write_file(f'{stem}.{i:04d}.raw', [(dict(hdr, PKTIDX=k), payload) for k in range(3)])
    fn = f'{stem}.0000.raw'
    for f, args in ((raw_utils.read_header, (fn,)), (raw_utils.get_raw_params, (stem,)),
                    (raw_utils.get_blocks_in_file, (fn,)), (raw_utils.get_blocks_per_file, (stem,)),
                    (raw_utils.get_total_blocks, (stem,))):
        try:
            f(*args)
        except Exception:       # noqa: BLE001 - warming only; these readers are judged by C04/C20 on their own files
            pass
    for i in range(nfiles):
        os.remove(f'{stem}.{i:04d}.raw')
