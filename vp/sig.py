"""
Signal descriptions (JSON) -> (a) arguments for setigen's add_signal, (b) an independent
reference evaluation of  t_profile(t_i) * f_profile(f_j, path(t_i)) * bandpass(f_j)  with the
documented sub-sample averages and Doppler smearing.

All parameters of a description are in channel / time-step units and are converted with the
frame's own df, dt, fmin, so that the interesting region (in band / partly / outside) is hit by
construction. Shipped families are re-derived here in closed form (FWHM<->sigma etc.); families
that consume random numbers are evaluated through a same-seed twin closure (their randomness is
an input, not the thing under test).
"""
import math

import numpy as np
from hypothesis import strategies as st

from vp import gen

FWHM_M = 2.0 * math.sqrt(2.0 * math.log(2.0))
SINC2_HALF = 0.442946470689452     # sinc(x)^2 = 1/2 at x = 0.4429...


# --------------------------------------------------------------------------------------
# strategies
# --------------------------------------------------------------------------------------
# scalar components arrive as Python numbers or as numpy scalars of any width (a level read from float32 data)
NP_FLOAT = st.sampled_from([False, False, True, 'f32'])


def scalar(spec, raw):
    """The object handed to the library for a scalar component, in the numeric type the description names."""
    n = spec.get('np', False)
    if spec['kind'] == 'int':
        return {False: int, 'i64': np.int64, 'i32': np.int32}[n](int(raw))
    return {False: float, True: np.float64, 'f32': np.float32}[n](raw)


def scalar_value(spec, raw):
    """... and its value as a Python float (float32 rounds)."""
    return float(scalar(spec, raw))


def path_strategy(kinds=None):
    u = st.one_of(gen.finite(-0.5, 1.5), gen.finite(0.1, 0.9))          # start, in units of the band
    drift = st.one_of(st.just(0.0), gen.finite(-4, 4), gen.finite(-1, 1))   # channels per step
    all_ = {
        'constant': st.fixed_dictionaries({'kind': st.just('constant'), 'u': u, 'drift': drift}),
        'squared': st.fixed_dictionaries({'kind': st.just('squared'), 'u': u, 'drift': gen.finite(-1, 1)}),
        'sine': st.fixed_dictionaries({'kind': st.just('sine'), 'u': u, 'drift': drift,
                                       'period': gen.finite(1.5, 20), 'amp': gen.finite(0, 5)}),
        'rfi': st.fixed_dictionaries({'kind': st.just('rfi'), 'u': u, 'drift': drift,
                                      'spread': gen.finite(0, 6),
                                      'spread_type': st.sampled_from(['uniform', 'normal']),
                                      'rfi_type': st.sampled_from(['stationary', 'random_walk']),
                                      'seed': st.integers(0, 10 ** 6)}),
        'custom': st.fixed_dictionaries({'kind': st.just('custom'),
                                         'form': st.sampled_from(['poly', 'sin']), 'u': u,
                                         'a1': gen.finite(-2, 2), 'a2': gen.finite(-0.3, 0.3)}),
        'array': st.fixed_dictionaries({'kind': st.just('array'), 'u': u, 'drift': drift,
                                        'seed': st.integers(0, 10 ** 6), 'jitter': gen.finite(0, 2),
                                        'as_list': st.booleans()}),
        'float': st.fixed_dictionaries({'kind': st.just('float'), 'u': u, 'np': NP_FLOAT}),      # float, numpy.float64 or numpy.float32
        'int': st.fixed_dictionaries({'kind': st.just('int'), 'u': u, 'np': st.sampled_from([False, False, 'i64'])}),
    }
    kinds = kinds or list(all_)
    return st.one_of([all_[k] for k in kinds])


def t_strategy(kinds=None):
    level = st.one_of(st.just(1.0), gen.finite(0.1, 100))
    all_ = {
        'constant': st.fixed_dictionaries({'kind': st.just('constant'), 'level': level}),
        'sine': st.fixed_dictionaries({'kind': st.just('sine'), 'period': gen.finite(1.5, 30),
                                       'phase': gen.finite(0, 10), 'amp': gen.finite(0, 2), 'level': level}),
        'pgauss': st.fixed_dictionaries({'kind': st.just('pgauss'), 'width': gen.finite(0.3, 4),
                                         'period': gen.finite(2.1, 12.3), 'phase': gen.finite(0, 5),
                                         'offset_width': st.one_of(st.just(0.0), gen.finite(0, 1)),
                                         'direction': st.sampled_from(['up', 'down', 'rand']),
                                         'pnum': st.integers(1, 6), 'amp': gen.finite(0.1, 3),
                                         'level': level, 'min_level': st.sampled_from([0.0, 0.5]),
                                         'seed': st.integers(0, 10 ** 6)}),
        'custom': st.fixed_dictionaries({'kind': st.just('custom'), 'form': st.sampled_from(['cos', 'ramp']),
                                         'level': level, 'a': gen.finite(0, 0.9), 'b': gen.finite(0.1, 3)}),
        'array': st.fixed_dictionaries({'kind': st.just('array'), 'level': level, 'seed': st.integers(0, 10 ** 6),
                                        'as_list': st.booleans()}),
        'float': st.fixed_dictionaries({'kind': st.just('float'), 'level': level, 'np': NP_FLOAT}),
        'int': st.fixed_dictionaries({'kind': st.just('int'), 'level': st.integers(1, 50), 'np': st.sampled_from([False, False, 'i64', 'i32'])}),
    }
    kinds = kinds or list(all_)
    return st.one_of([all_[k] for k in kinds])


def f_strategy(kinds=None):
    w = st.one_of(gen.finite(0.05, 10), gen.finite(0.8, 4))       # channels
    all_ = {
        'box': st.fixed_dictionaries({'kind': st.just('box'), 'w': w}),
        'gaussian': st.fixed_dictionaries({'kind': st.just('gaussian'), 'w': w}),
        'multiple_gaussian': st.fixed_dictionaries({'kind': st.just('multiple_gaussian'), 'w': w}),
        'lorentzian': st.fixed_dictionaries({'kind': st.just('lorentzian'), 'w': w}),
        'voigt': st.fixed_dictionaries({'kind': st.just('voigt'), 'w': w, 'lw': gen.finite(0.05, 10)}),
        'sinc2': st.fixed_dictionaries({'kind': st.just('sinc2'), 'w': w,
                                        'mode': st.sampled_from(['crossing', 'fwhm']), 'trunc': st.booleans()}),
        'custom': st.fixed_dictionaries({'kind': st.just('custom'), 'form': st.sampled_from(['tri', 'exp']), 'w': w}),
    }
    kinds = kinds or list(all_)
    return st.one_of([all_[k] for k in kinds])


def bp_strategy():
    return st.one_of(
        st.just({'kind': 'none'}),
        st.fixed_dictionaries({'kind': st.just('constant'), 'level': gen.finite(0.1, 1.0)}),
        st.fixed_dictionaries({'kind': st.just('custom'), 'a': gen.finite(-0.9, 2)}),
        st.fixed_dictionaries({'kind': st.just('array'), 'a': gen.finite(-0.9, 2), 'as_list': st.booleans()}),
        st.fixed_dictionaries({'kind': st.just('float'), 'level': gen.finite(0.1, 1.0), 'np': NP_FLOAT}),
        st.fixed_dictionaries({'kind': st.just('int'), 'level': st.integers(1, 3), 'np': st.sampled_from([False, False, 'i64', 'i32'])}),
    )


def opts_strategy():
    # 10 is the documented default of the three sub-sample counts
    sub = st.one_of(st.integers(1, 7), st.integers(1, 7), st.just(10))
    return st.fixed_dictionaries({
        'integrate_path': st.booleans(), 'integrate_t_profile': st.booleans(),
        'integrate_f_profile': st.booleans(),
        't_subsamples': sub, 'f_subsamples': sub,
        'doppler_smearing': st.booleans(), 'smearing_subsamples': st.one_of(st.integers(1, 9), st.just(10)),
        # how the options reach add_signal: all spelled out, documented defaults left out, or positionally
        'call_style': st.sampled_from(['explicit', 'explicit', 'omit_defaults', 'omit_defaults', 'positional']),
    })


ADD_SIGNAL_DEFAULTS = (('bounding_f_range', None), ('integrate_path', False), ('integrate_t_profile', False),
                       ('integrate_f_profile', False), ('doppler_smearing', False), ('t_subsamples', 10),
                       ('f_subsamples', 10), ('smearing_subsamples', 10))       # in signature order, after bp_profile


def call_options(opts, rng=None):
    """(args, kwargs) that follow (path, t_profile, f_profile, bp_profile) in an add_signal call."""
    full = dict(bounding_f_range=rng, integrate_path=opts['integrate_path'], integrate_t_profile=opts['integrate_t_profile'],
                integrate_f_profile=opts['integrate_f_profile'], doppler_smearing=opts['doppler_smearing'],
                t_subsamples=opts['t_subsamples'], f_subsamples=opts['f_subsamples'], smearing_subsamples=opts['smearing_subsamples'])
    style = opts.get('call_style', 'explicit')
    if style == 'positional':
        return tuple(full[k] for k, _ in ADD_SIGNAL_DEFAULTS), {}
    if style == 'omit_defaults':
        return (), {k: full[k] for k, d in ADD_SIGNAL_DEFAULTS if not (full[k] is d or (d is not None and type(full[k]) is type(d) and full[k] == d))}
    return (), full


RANGE_KINDS = ['none', 'none', 'inside', 'clip_low', 'clip_high', 'below', 'above', 'reversed', 'open_high', 'open_low', 'far_high']


def range_strategy():
    return st.fixed_dictionaries({'kind': st.sampled_from(RANGE_KINDS),
                                  'a': gen.finite(0.05, 0.45), 'b': gen.finite(0.55, 0.95)})


# --------------------------------------------------------------------------------------
# description -> concrete objects
# --------------------------------------------------------------------------------------
class Axes(object):
    """The frame geometry a description is resolved against."""
    def __init__(self, fs, ts, df, dt):
        self.fs = np.asarray(fs, dtype=float)
        self.ts = np.asarray(ts, dtype=float)
        self.df, self.dt = float(df), float(dt)
        self.N, self.T = len(self.fs), len(self.ts)
        self.fmin = float(self.fs[0])
        self.span = self.N * self.df

    def f_of(self, u):
        """u in units of the band: 0 -> first channel centre, 1 -> one past the last."""
        return self.fmin + u * (self.N - 1) * self.df


def range_of(ax, r):
    """Bounding frequency range for a range description (None for no range)."""
    k = r['kind']
    lo, hi = ax.fmin, ax.fmin + (ax.N - 1) * ax.df
    w = hi - lo if ax.N > 1 else ax.df
    if k == 'none':
        return None
    if k == 'inside':
        return (lo + r['a'] * w, lo + r['b'] * w)
    if k == 'clip_low':
        return (lo - (1 + r['a']) * w - ax.df, lo + r['b'] * w)
    if k == 'clip_high':
        return (lo + r['a'] * w, hi + (1 + r['b']) * w + ax.df)
    if k == 'below':
        # upper end less than a band-width below the band: its channel index is in (-N, 0)
        return (lo - (1 + r['b']) * w - 3 * ax.df, lo - r['a'] * w - 2 * ax.df)
    if k == 'above':
        return (hi + (1 + r['a']) * w + 2 * ax.df, hi + (2 + r['b']) * w + 3 * ax.df)
    if k == 'reversed':
        return (lo + r['b'] * w, lo + r['a'] * w)
    # one-sided ranges: everything above / below a frequency, written with an infinite or an absurdly large bound
    if k == 'open_high':
        return (lo + r['a'] * w, math.inf)
    if k == 'open_low':
        return (-math.inf, lo + r['b'] * w)
    if k == 'far_high':
        return (lo + r['a'] * w, 1e20)
    raise ValueError(k)


def _path_params(ax, p):
    f0 = ax.f_of(p['u'])
    rate = p.get('drift', 0.0) * ax.df / ax.dt
    return f0, rate


def path_array(ax, p, n):
    """Deterministic array path of n values (n = tchans or tchans+1)."""
    f0, rate = _path_params(ax, p)
    rs = np.random.RandomState(p['seed'])
    t = np.arange(n) * ax.dt
    return f0 + rate * t + p['jitter'] * ax.df * rs.uniform(-1, 1, n)


def path_callable(ax, p):
    """Reference closure for a path description (own closed forms)."""
    k = p['kind']
    f0, rate = _path_params(ax, p)
    if k == 'constant':
        return lambda t: f0 + rate * t
    if k == 'squared':
        r2 = p['drift'] * ax.df / ax.dt ** 2
        return lambda t: f0 + 0.5 * r2 * t ** 2
    if k == 'sine':
        per, amp = p['period'] * ax.dt, p['amp'] * ax.df
        return lambda t: f0 + amp * np.sin(2 * np.pi * t / per) + rate * t
    if k == 'custom':
        if p['form'] == 'poly':
            return lambda t: f0 + ax.df * (p['a1'] * (t / ax.dt) + p['a2'] * (t / ax.dt) ** 2)
        return lambda t: f0 + ax.df * p['a1'] * np.sin(p['a2'] * 10 * (t / ax.dt))
    if k == 'rfi':
        rng = np.random.default_rng(p['seed'])
        spread = p['spread'] * ax.df

        def path(t):
            t = np.asarray(t)
            if p['spread_type'] == 'uniform':
                off = rng.uniform(-spread / 2., spread / 2., size=t.shape)
            else:
                off = rng.normal(0, spread / FWHM_M, size=t.shape)
            if p['rfi_type'] == 'random_walk':
                off = np.cumsum(off)
            return f0 + rate * t + off
        return path
    raise ValueError(k)


def stg_path(stg, ax, p, smearing):
    """The object handed to setigen for this path description."""
    from astropy import units as u
    k = p['kind']
    f0, rate = _path_params(ax, p)
    if k == 'constant':
        return stg.constant_path(f_start=f0 * u.Hz, drift_rate=rate * u.Hz / u.s)
    if k == 'squared':
        return stg.squared_path(f_start=f0, drift_rate=p['drift'] * ax.df / ax.dt ** 2)
    if k == 'sine':
        return stg.sine_path(f_start=f0, drift_rate=rate, period=p['period'] * ax.dt, amplitude=p['amp'] * ax.df)
    if k == 'rfi':
        return stg.simple_rfi_path(f_start=f0, drift_rate=rate, spread=p['spread'] * ax.df,
                                   spread_type=p['spread_type'], rfi_type=p['rfi_type'], seed=p['seed'])
    if k == 'custom':
        return path_callable(ax, p)
    if k == 'array':
        a = path_array(ax, p, ax.T + 1 if smearing else ax.T)
        return a.tolist() if p['as_list'] else a
    if k in ('float', 'int'):
        return scalar(p, f0)
    raise ValueError(k)


def t_callable(ax, t):
    k = t['kind']
    if k == 'constant':
        return lambda x: np.full(np.shape(x), float(t['level']))
    if k == 'sine':
        per = t['period'] * ax.dt
        return lambda x: t['amp'] * np.sin(2 * np.pi * (x + t['phase'] * ax.dt) / per) + t['level']
    if k == 'custom':
        if t['form'] == 'cos':
            return lambda x: t['level'] * (1 + t['a'] * np.cos(t['b'] * x / ax.dt))
        return lambda x: t['level'] * (1 + t['a'] * x / (ax.T * ax.dt))
    if k == 'pgauss':
        if t['offset_width'] == 0 and t['direction'] in ('up', 'down'):
            # deterministic: own closed form
            per, ph = t['period'] * ax.dt, t['phase'] * ax.dt
            sig = t['width'] * ax.dt / FWHM_M
            sign = 1.0 if t['direction'] == 'up' else -1.0
            pnum = t['pnum']

            def prof(x):
                x = np.asarray(x, dtype=float)
                k0 = np.round((x + ph) / per - 0.25)
                h = pnum // 2
                ks = range(-h, h + 1) if pnum % 2 else range(-h + 1, h + 1)
                tot = np.zeros_like(x)
                for d in ks:
                    c = (4.0 * (k0 + d) + 1.0) / 4.0 * per - ph
                    tot = tot + sign * t['amp'] * np.exp(-(x - c) ** 2 / (2 * sig ** 2))
                return np.maximum(t['min_level'], tot + t['level'])
            return prof
        return None       # randomised: needs the same-seed twin
    raise ValueError(k)


def t_array(ax, t):
    rs = np.random.RandomState(t['seed'])
    return t['level'] * rs.uniform(0.2, 1.0, ax.T)


def stg_t(stg, ax, t):
    from astropy import units as u
    k = t['kind']
    if k == 'constant':
        return stg.constant_t_profile(level=t['level'])
    if k == 'sine':
        return stg.sine_t_profile(period=t['period'] * ax.dt * u.s, phase=t['phase'] * ax.dt,
                                  amplitude=t['amp'], level=t['level'])
    if k == 'pgauss':
        return stg.periodic_gaussian_t_profile(pulse_width=t['width'] * ax.dt, period=t['period'] * ax.dt,
                                               phase=t['phase'] * ax.dt,
                                               pulse_offset_width=t['offset_width'] * ax.dt,
                                               pulse_direction=t['direction'], pnum=t['pnum'],
                                               amplitude=t['amp'], level=t['level'],
                                               min_level=t['min_level'], seed=t['seed'])
    if k == 'custom':
        return t_callable(ax, t)
    if k == 'array':
        a = t_array(ax, t)
        return a.tolist() if t['as_list'] else a
    if k in ('float', 'int'):
        return scalar(t, t['level'])
    raise ValueError(k)


def f_callable(ax, f):
    """Reference closure F(freq, centre) and (Lipschitz bound per Hz, support edge offsets in Hz)."""
    k = f['kind']
    w = f['w'] * ax.df
    if k == 'box':
        return (lambda x, c: (np.abs(x - c) < w / 2).astype(float)), 0.0, [w / 2]
    if k == 'gaussian':
        s = w / FWHM_M
        return (lambda x, c: np.exp(-(x - c) ** 2 / (2 * s * s))), 1.5 / w, []
    if k == 'multiple_gaussian':
        s = w / FWHM_M
        g = lambda x, c: np.exp(-(x - c) ** 2 / (2 * s * s))
        return (lambda x, c: g(x, c - 100) / 4 + g(x, c) + g(x, c + 100) / 4), 2.5 / w, []
    if k == 'lorentzian':
        gam = w / 2
        return (lambda x, c: 1.0 / (1.0 + ((x - c) / gam) ** 2)), 1.4 / w, []
    if k == 'voigt':
        from scipy.special import wofz
        s = w / FWHM_M
        gam = f['lw'] * ax.df / 2

        def v(x, c):
            z = ((x - c) + 1j * gam) / (s * math.sqrt(2))
            z0 = (1j * gam) / (s * math.sqrt(2))
            return np.real(wofz(z)) / np.real(wofz(z0))
        return v, 4.0 / min(w, f['lw'] * ax.df), []
    if k == 'sinc2':
        zc = (w / 2) / SINC2_HALF if f['mode'] == 'fwhm' else w / 2

        def s2(x, c):
            y = np.sinc((x - c) / zc) ** 2
            if f['trunc']:
                y = np.where(np.abs(x - c) < zc, y, 0.0)
            return y
        return s2, 2.0 / zc, []     # continuous at the truncation point (sinc^2 -> 0)
    if k == 'custom':
        if f['form'] == 'tri':
            return (lambda x, c: np.maximum(0.0, 1.0 - np.abs(x - c) / w)), 1.0 / w, []
        return (lambda x, c: np.exp(-np.abs(x - c) / w)), 1.0 / w, []
    raise ValueError(k)


def stg_f(stg, ax, f):
    from astropy import units as u
    k = f['kind']
    w = f['w'] * ax.df
    if k == 'box':
        return stg.box_f_profile(width=w * u.Hz)
    if k == 'gaussian':
        return stg.gaussian_f_profile(width=w)
    if k == 'multiple_gaussian':
        return stg.multiple_gaussian_f_profile(width=w)
    if k == 'lorentzian':
        return stg.lorentzian_f_profile(width=w)
    if k == 'voigt':
        return stg.voigt_f_profile(g_width=w, l_width=f['lw'] * ax.df)
    if k == 'sinc2':
        return stg.sinc2_f_profile(width=w, width_mode=f['mode'], trunc=f['trunc'])
    if k == 'custom':
        return f_callable(ax, f)[0]
    raise ValueError(k)


def bp_callable(ax, b):
    k = b['kind']
    if k in ('none',):
        return lambda x: np.ones(np.shape(x))
    if k in ('float', 'int'):
        return lambda x: np.full(np.shape(x), scalar_value(b, b['level']))
    if k == 'constant':
        return lambda x: np.full(np.shape(x), float(b['level']))
    if k in ('custom', 'array'):
        return lambda x: 1.0 + b['a'] * (np.asarray(x) - ax.fmin) / ax.span
    raise ValueError(k)


def stg_bp(stg, ax, b, cols=None):
    k = b['kind']
    if k == 'none':
        return None
    if k == 'constant':
        return stg.constant_bp_profile(level=b['level'])
    if k == 'custom':
        return bp_callable(ax, b)
    if k in ('float', 'int'):
        return scalar(b, b['level'])
    if k == 'array':
        fs = ax.fs if cols is None else ax.fs[cols[0]:cols[1]]
        a = bp_callable(ax, b)(fs)
        return a.tolist() if b['as_list'] else a
    raise ValueError(k)


def amplitude_parts(ax, sig):
    """Nominal bounds of the three factors: (time profile, bandpass, frequency profile)."""
    t = sig['t']
    lvl = float(t.get('level', 1.0))
    a = lvl * (1 + abs(t.get('amp', 0.0)) + abs(t.get('a', 0.0)))
    if t['kind'] == 'pgauss':
        a = lvl + t['amp'] * t['pnum']
    b = sig['bp']
    bpmax = 1.0 if b['kind'] == 'none' else max(abs(b.get('level', 1.0)), 1 + abs(b.get('a', 0.0)))
    fmax = 1.5 if sig['f']['kind'] == 'multiple_gaussian' else 1.0
    return a, bpmax, fmax


def amplitude_bound(ax, sig):
    a, bpmax, fmax = amplitude_parts(ax, sig)
    return a * bpmax * fmax


# --------------------------------------------------------------------------------------
# the reference evaluation
# --------------------------------------------------------------------------------------
def subgrid(ts, dt, n):
    """Left-Riemann sub-sample times: ts[i] + k*dt/n, shape (len(ts), n)."""
    return np.asarray(ts)[:, None] + np.arange(n)[None, :] * (dt / n)


def reference(stg, ax, sig, opts, ts_eval=None, cache=None, ax_fn=None):
    """
    Expected signal on the full band of ax. ts_eval: the times at which path / time profile are
    to be evaluated (default: the frame's own axis; cadence injection passes shifted times).
    cache: dict shared between the frames of one cadence injection, so that closures (and the
    random state of seeded families) are created once and called frame after frame, as the one
    callable handed to the library is.
    Returns (expected[T, N], tol[T, N] or scalar, exclude[T, N] bool mask of discontinuity pixels).
    """
    if cache is None:
        cache = {}
    axf = ax if ax_fn is None else ax_fn      # the axes the callables handed to the library were built from
    ts = ax.ts if ts_eval is None else np.asarray(ts_eval, dtype=float)
    T, N = ax.T, ax.N
    smear = bool(opts.get('doppler_smearing'))
    n_t = int(opts.get('t_subsamples', 10))
    n_f = int(opts.get('f_subsamples', 10))
    n_s = int(opts.get('smearing_subsamples', 10))
    ts_ext = np.append(ts, ts[-1] + ax.dt)

    # ---- time profile ---------------------------------------------------------------
    t = sig['t']
    tk = t['kind']
    if tk in ('float', 'int'):
        tp = np.full(T, scalar_value(t, t['level']))
    elif tk == 'array':
        tp = t_array(ax, t)
    else:
        fn = cache.get('t_fn')
        if fn is None:
            fn = t_callable(axf, t)
            if fn is None:      # randomised family: same-seed twin, called once like the frame does
                fn = stg_t(stg, axf, t)
            cache['t_fn'] = fn
        if opts.get('integrate_t_profile'):
            g = subgrid(ts, ax.dt, n_t)
            y = np.asarray(fn(g.ravel()), dtype=float)
            tp = y.reshape(T, n_t).mean(axis=1)
        else:
            g = np.asarray(ts, dtype=float)[:, None]
            tp = np.asarray(fn(ts), dtype=float) * np.ones(T)
        if tk == 'pgauss':
            # the family sums the pnum pulses nearest to each sample, found by rounding (t + phase)/period - 1/4: a
            # sample exactly half-way between two pulse centres may go either way with an ulp of the time stamp
            # (which pulses are summed then differs by one far pulse): such rows are not judged
            uu = (g + t['phase'] * axf.dt) / (t['period'] * axf.dt) - 0.25
            t_tie_rows = (np.abs(uu - np.floor(uu) - 0.5) < 1e-9).any(axis=1)
        else:
            t_tie_rows = None

    # ---- path -----------------------------------------------------------------------
    p = sig['path']
    pk = p['kind']
    T_eff = T + 1 if smear else T
    if pk in ('float', 'int'):
        f0 = ax.f_of(p['u'])
        pc = np.full(T_eff, scalar_value(p, f0))
    elif pk == 'array':
        pc = path_array(ax, p, T_eff)
    else:
        fn = cache.get('path_fn')
        if fn is None:
            fn = cache['path_fn'] = path_callable(axf, p)
        tt = ts_ext if smear else ts
        if opts.get('integrate_path'):
            g = subgrid(tt, ax.dt, n_t)
            y = np.asarray(fn(g.ravel()), dtype=float)
            pc = y.reshape(T_eff, n_t).mean(axis=1)
        else:
            pc = np.asarray(fn(tt), dtype=float) * np.ones(T_eff)

    # ---- frequency profile, bandpass, sub-sampling, smearing --------------------------
    F, lip, edges = f_callable(ax, sig['f'])
    B = bp_callable(ax, sig['bp'])
    if opts.get('integrate_f_profile'):
        fgrid = ax.fs[:, None] + np.arange(n_f)[None, :] * (ax.df / n_f)      # (N, n_f)
    else:
        fgrid = ax.fs[:, None]
    if sig['bp']['kind'] == 'array':
        bgrid = B(ax.fs)[:, None] * np.ones_like(fgrid)
    else:
        bgrid = B(fgrid)
    if smear:
        dpc = np.diff(pc) / n_s
        centres = pc[:T, None] + np.arange(n_s)[None, :] * dpc[:, None]       # (T, n_s)
    else:
        centres = pc[:T, None]
    # value[i, j] = mean_m mean_q  tp[i] * F(f_jq, c_im) * B(f_jq)
    x = fgrid[None, :, :, None]                    # (1, N, q, 1)
    c = centres[:, None, None, :]                  # (T, 1, 1, m)
    val = F(x, c) * bgrid[None, :, :, None]
    exp = tp[:, None] * val.mean(axis=(2, 3))

    # discontinuities (box edges): exclude pixels within a hair of an edge
    excl = np.zeros((T, N), dtype=bool)
    if tk not in ('float', 'int', 'array') and t_tie_rows is not None and t_tie_rows.any():
        excl |= t_tie_rows[:, None]
    if edges:
        d = np.abs(x - c)
        # (with smearing the library advances the centre step by step: up to half an ulp of fmax per step)
        eps = (64 + (2 * n_s if smear else 0)) * gen.ulp(ax.fs[-1]) + 1e-9 * ax.df
        near = np.zeros(d.shape, dtype=bool)
        for e in edges:
            near |= np.abs(d - e) < eps
        excl = excl | near.any(axis=(2, 3))
    # scale with the magnitude actually reached (time-growing custom profiles at unix-scale times exceed the nominal bound)
    # ... and with the magnitude the time profile reaches in each row: an error of the frequency profile (a centre
    # frequency known to a few ulps) is multiplied by it even where the profile value itself, hence the pixel, is tiny
    amp = amplitude_bound(ax, sig)
    a_t = amplitude_parts(ax, sig)[0]
    tol = tolerance(ax, sig, n_smear=n_s if smear else 0) * np.maximum(1.0, np.maximum(np.abs(exp) / amp, (np.abs(tp) / a_t)[:, None]))
    return exp, tol, excl


def tolerance(ax, sig, n_smear=0):
    """Per-pixel bound on legitimate evaluation-order differences (DESIGN 1.5). Smearing may advance the centre
    frequency incrementally: each of the n steps can add half an ulp of fmax."""
    _, lip, _ = f_callable(ax, sig['f'])
    amp = amplitude_bound(ax, sig)
    # custom / array bandpass ramps have slope |a|/span per Hz
    blip = abs(sig['bp'].get('a', 0.0)) / ax.span if sig['bp']['kind'] in ('custom', 'array') else 0.0
    return amp * ((lip + blip) * (64 + 2 * n_smear) * gen.ulp(ax.fs[-1]) + 1e-9)
