"""Shared Hypothesis strategies. Every strategy yields JSON-serialisable values."""
import math

from hypothesis import strategies as st

DEFAULT_DF = 2.7939677238464355
DEFAULT_DT = 18.253611008


def ulp(x):
    return math.ulp(abs(float(x)))


def finite(lo, hi):
    return st.floats(min_value=lo, max_value=hi, allow_nan=False, allow_infinity=False,
                     allow_subnormal=False)


@st.composite
def geometry(draw, max_fchans=96, max_tchans=24, min_fchans=1, min_tchans=1,
             routes=('sizes', 'shape', 'data', 'from_data', 'units')):
    """
    Frame geometry with realistic fch1/df ratio: df >= 4096 ulp(fch1), whole band positive.
    """
    fchans = draw(st.one_of(st.integers(min_fchans, max(min_fchans, 8)),
                            st.integers(min_fchans, max_fchans)))
    tchans = draw(st.integers(min_tchans, max_tchans))
    df = draw(st.one_of(st.sampled_from([DEFAULT_DF, 1.0, 0.5, 1e3 / 3, 2.0, 1e3]),
                        finite(1e-2, 1e4)))
    dt = draw(st.one_of(st.sampled_from([DEFAULT_DT, 1.0, 0.1, 0.5, 1.0 / 3]),
                        finite(1e-3, 1e2)))
    fch1 = draw(st.one_of(st.sampled_from([6e9, 1.42040575e9, 8.4e9 + 123.456, 1e6, 6095.214842353016e6]),
                          finite(1e6, 3e10)))
    # construction, not rejection: clamp into the stated domain
    fch1 = min(fch1, df * 2.0 ** 40)
    fch1 = max(fch1, 4.0 * fchans * df + 1.0)
    ascending = draw(st.booleans())
    # the flag may arrive as numpy.bool_ (e.g. from `foff > 0`) or as 0/1
    asc_form = draw(st.sampled_from(['bool', 'bool', 'bool', 'np_bool', 'int']))
    t_start = draw(st.sampled_from([0.0, 1.0e3, 1.7e9, 1.6e9 + 0.25, 59000.5 * 86400.0 - 3506716800.0 + 1.5e9]))
    route = draw(st.sampled_from(list(routes)))
    unit_f = draw(st.sampled_from(['Hz', 'kHz', 'MHz']))
    unit_t = draw(st.sampled_from(['s', 'ms']))
    return dict(fchans=fchans, tchans=tchans, df=df, dt=dt, fch1=fch1, ascending=ascending,
                t_start=t_start, route=route, unit_f=unit_f, unit_t=unit_t, asc_form=asc_form)


def make_frame(stg, g, data=None, seed=None, source_name=None):
    """Build a frame for geometry g through the construction route it names."""
    import numpy as np
    from astropy import units as u
    kw = dict(t_start=g['t_start'])
    form = g.get('asc_form', 'bool')
    asc = np.bool_(g['ascending']) if form == 'np_bool' else (int(g['ascending']) if form == 'int' else bool(g['ascending']))
    g = dict(g, ascending=asc)
    if source_name is not None:
        kw['source_name'] = source_name
    route = g.get('route', 'sizes')
    if data is not None and route in ('sizes', 'shape', 'units'):
        route = 'data'
    if route == 'sizes':
        return stg.Frame(fchans=g['fchans'], tchans=g['tchans'], df=g['df'], dt=g['dt'],
                         fch1=g['fch1'], ascending=g['ascending'], seed=seed, **kw)
    if route == 'units':
        uf = getattr(u, g['unit_f'])
        ut = getattr(u, g['unit_t'])
        return stg.Frame(fchans=g['fchans'] * u.pixel, tchans=g['tchans'] * u.pixel,
                         df=(g['df'] * u.Hz).to(uf), dt=(g['dt'] * u.s).to(ut),
                         fch1=(g['fch1'] * u.Hz).to(uf), ascending=g['ascending'],
                         seed=seed, **kw)
    if route == 'shape':
        return stg.Frame(shape=(g['tchans'], g['fchans']), df=g['df'], dt=g['dt'],
                         fch1=g['fch1'], ascending=g['ascending'], seed=seed, **kw)
    if data is None:
        data = np.zeros((g['tchans'], g['fchans']))
    if route == 'data':
        return stg.Frame(data=data, df=g['df'], dt=g['dt'], fch1=g['fch1'],
                         ascending=g['ascending'], seed=seed, **kw)
    if route == 'from_data':
        fr = stg.Frame.from_data(g['df'], g['dt'], g['fch1'], g['ascending'], data,
                                 seed=seed)
        # from_data takes neither start time nor name; set them the way a user would
        fr.t_start = g['t_start']
        if source_name is not None:
            fr.source_name = source_name
        return fr
    raise ValueError(route)
