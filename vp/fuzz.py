"""
Coverage-guided stage (thorough tier, optional): atheris/libFuzzer drives the SAME Hypothesis strategy and the SAME
run_case oracle of a property through `hypothesis.fuzz_one_input`, with the repository's Python code instrumented for
coverage. libFuzzer mutates the byte string from which Hypothesis builds the case, and keeps inputs that reach new
branches of setigen; the oracle inside run_case decides, exactly as in the random search.

Runs in its own process (libFuzzer ends the process when it is done and atexit handlers do not run, so the statistics
are written to --out every few hundred executions and on the last one):

    python -m vp.fuzz C18 --runs 4000 --seed 7 --out /path/stats.json --work /scratch/dir

atheris is installed on demand from the offline wheelhouse into /verif/.deps (git-ignored). If that is impossible the
stage reports `skipped` and the caller continues without it: it is an addition to the search, never the only evidence.
"""
import argparse
import importlib
import json
import os
import shutil
import subprocess
import sys
import tempfile

VERIF = os.path.dirname(os.path.dirname(os.path.abspath(__file__)))
DEPS = os.path.join(VERIF, '.deps')
WHEELS = '/opt/veriftools/wheels'


def ensure_atheris():
    if DEPS not in sys.path:
        sys.path.insert(0, DEPS)
    try:
        import atheris  # noqa: F401
        return True
    except ImportError:
        pass
    try:
        subprocess.run([sys.executable, '-m', 'pip', 'install', '--no-index', '--find-links', WHEELS, '--target', DEPS,
                        '--quiet', 'atheris'], check=True, stdout=subprocess.DEVNULL, stderr=subprocess.DEVNULL, timeout=300)
        importlib.invalidate_caches()
        import atheris  # noqa: F401
        return True
    except Exception:       # noqa: BLE001
        return False


def main():
    ap = argparse.ArgumentParser()
    ap.add_argument('prop')
    ap.add_argument('--runs', type=int, default=2000)
    ap.add_argument('--seed', type=int, default=1)
    ap.add_argument('--out', required=True)
    ap.add_argument('--tier', default='thorough')
    ap.add_argument('--work', required=True, help='scratch directory owned (and removed) by the caller')
    a = ap.parse_args()

    def write(doc):
        tmp = a.out + '.tmp'
        with open(tmp, 'w') as f:
            json.dump(doc, f, default=core._json_default)
        os.replace(tmp, a.out)

    from vp import core
    if not ensure_atheris():
        write(dict(status='skipped', reason='atheris not installable', dump=None))
        return 0
    import atheris
    # instrument the repository's Python modules for coverage while they are imported
    repo = core.REPO
    if repo not in sys.path:
        sys.path.insert(0, repo)
    with atheris.instrument_imports(include=['setigen']):
        import setigen  # noqa: F401
        from setigen import cadence, frame, split_utils, waterfall_utils  # noqa: F401
        from setigen.voltage import raw_utils, quantization, data_stream, antenna, polyphase_filterbank, backend  # noqa: F401
    if not os.path.abspath(setigen.__file__).startswith(os.path.abspath(repo) + os.sep):
        raise core.HarnessError(f'setigen imported from {setigen.__file__}, expected {repo}')
    core.import_setigen()
    import hypothesis
    from hypothesis import given, settings, HealthCheck
    mod = importlib.import_module('vp.props.' + a.prop.lower())
    known = core.load_known(mod.PROP_ID)
    stats = core.Stats()
    tmpdir = os.path.join(a.work, 'cases')
    os.makedirs(tmpdir, exist_ok=True)
    ctx = core.Ctx(tmpdir, a.tier)
    init = getattr(mod, 'shard_init', None)
    if init is not None:
        init(a.tier)
    state = {'n': 0, 'invalid': 0}

    @settings(database=None, deadline=None, suppress_health_check=list(HealthCheck))
    @given(mod.strategy(a.tier))
    def one(case):
        obs = core.safe_run_case(mod, case, ctx)
        stats.record(mod, known, case, obs)
        ctx.clean()
    target = one.hypothesis.fuzz_one_input
    decode = getattr(mod, 'decode_bytes', None)
    if decode is not None:
        # a hand-written decoder from bytes to a case of the same domain: every byte string is a case, so libFuzzer's
        # mutations are never wasted (Hypothesis' own byte-string reader rejects most random strings for deep strategies)
        def target(data):       # noqa: F811
            case = decode(atheris.FuzzedDataProvider(data))
            obs = core.safe_run_case(mod, case, ctx)
            stats.record(mod, known, case, obs)
            ctx.clean()

    def flush(status):
        d = stats.dump()
        d['counters'] = dict(d['counters'], fuzz_stage_executions=state['n'], fuzz_stage_bytes_not_a_case=state['invalid'])
        write(dict(status=status, dump=d))

    def test_one_input(data):
        state['n'] += 1
        before = stats.evaluations
        target(data)
        if stats.evaluations == before:
            state['invalid'] += 1            # the bytes did not decode to a complete case
        if state['n'] % 200 == 0 or state['n'] >= a.runs:
            flush('done' if state['n'] >= a.runs else 'running')

    corpus = os.path.join(a.work, 'corpus')      # not under tmpdir: ctx.clean() empties that
    os.makedirs(corpus, exist_ok=True)
    # Hypothesis reads its choices from the byte string and gives up on strings that are too short for a whole case;
    # libFuzzer starts from one-byte inputs and would never learn that. Start from a few long pseudo-random strings
    # (a pure function of --seed) and let it mutate those.
    import random
    rnd = random.Random(a.seed)
    for i in range(24):
        with open(os.path.join(corpus, f'seed{i:02d}'), 'wb') as f:
            f.write(bytes(rnd.getrandbits(8) if rnd.random() < 0.7 else 0 for _ in range(rnd.choice([256, 1024, 4096]))))
    flush('running')
    try:
        atheris.Setup([sys.argv[0], f'-runs={a.runs}', f'-seed={a.seed or 1}', '-max_len=8192', '-len_control=0', '-timeout=600',
                       '-print_final_stats=0', '-verbosity=0', corpus], test_one_input)
        atheris.Fuzz()
    finally:
        flush('done')      # usually not reached: libFuzzer ends the process itself; the caller removes --work
    return 0


if __name__ == '__main__':
    sys.exit(main())
